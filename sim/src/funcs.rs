//! jawk's function table as scraped from the working tree at build time (build.rs), with a
//! committed snapshot as fallback, plus the validated expression corpus derived from it.

use crate::run::{run, RunSpec};
use std::sync::OnceLock;

#[derive(Debug)]
pub struct Ex {
    pub input: Option<&'static str>,
    pub args: &'static [&'static str],
}

#[derive(Debug)]
pub struct Func {
    pub name: &'static str,
    pub aliases: &'static [&'static str],
    pub min: usize,
    pub max: usize,
    pub examples: &'static [Ex],
}

include!(concat!(env!("OUT_DIR"), "/scraped.rs"));

mod snapshot {
    use super::{Ex, Func};
    include!("funcs_snapshot.rs");
}

pub fn funcs() -> &'static [Func] {
    if SCRAPED_COUNT >= 50 {
        SCRAPED
    } else {
        snapshot::SCRAPED
    }
}

pub fn scraped_live() -> bool {
    SCRAPED_COUNT >= 50
}

/// Functions that touch the clock, the environment or child processes: never generated.
pub fn excluded_name(name: &str) -> bool {
    matches!(name, "exec" | "trigger" | "now" | "env")
        || name.contains("exec")
        || name.contains("trigger")
}

fn excluded_text(t: &str) -> bool {
    ["exec", "trigger", "now", "env", "&"]
        .iter()
        .any(|w| t.contains(w))
}

#[derive(Debug, Clone)]
pub struct CorpusExpr {
    pub expr: String,
    /// documented input of the example, if any (JSON text)
    pub input: Option<String>,
}

static CORPUS: OnceLock<Vec<CorpusExpr>> = OnceLock::new();

pub fn parses_as_select(expr: &str) -> bool {
    let argv = vec!["--select".to_string(), format!("{expr}=x")];
    let out = run(RunSpec::plain(&argv, b""));
    out.outcome.is_ok()
}

/// Documented example expressions `(name arg…)` that parse on the tree under test.
pub fn corpus() -> &'static [CorpusExpr] {
    CORPUS.get_or_init(|| {
        let mut v = Vec::new();
        for f in funcs() {
            if excluded_name(f.name) {
                continue;
            }
            let mut names = vec![f.name];
            names.extend_from_slice(f.aliases);
            for (ei, ex) in f.examples.iter().enumerate() {
                // rotate through aliases so that each gets used
                let name = names[ei % names.len()];
                let expr = format!("({} {})", name, ex.args.join(" "));
                if excluded_text(&expr) || expr.len() > 400 {
                    continue;
                }
                if parses_as_select(&expr) {
                    v.push(CorpusExpr {
                        expr,
                        input: ex.input.map(str::to_string),
                    });
                }
            }
        }
        v
    })
}
