//! Shared plumbing for the property checks: execution context with statistics and abstract
//! trace hashing, helpers to derive run specifications from cases, small byte utilities.

use crate::case::*;
use crate::rng::{hash_bytes, mix, Rng};
use crate::run::*;
use crate::world::*;
use std::path::PathBuf;

#[derive(Clone, Copy, Debug, PartialEq, Eq)]
pub enum Tier {
    Quick,
    Thorough,
}

pub struct Ctx {
    pub stats: Stats,
    pub tier: Tier,
    pub tmpdir: PathBuf,
    /// first jawk panic seen in this scenario (message, location)
    pub jawk_panic: Option<(String, String)>,
    /// a panic located inside the harness itself
    pub harness_error: Option<String>,
    file_counter: u32,
    /// per-point abstract traces of enumerating scenarios: (trace hash, non-trivial)
    pub subs: Vec<(u64, bool)>,
    saved_trace: u64,
    /// every jawk run of the scenario gets a thread of its own (thread-locals at their
    /// initial values, as in a fresh process), instead of sharing the worker's
    pub isolate_runs: bool,
    /// how file arguments are named: 0 plain, 1 long with multi-byte characters, 2 with a
    /// comma and a blank
    pub name_style: u8,
}

impl Ctx {
    pub fn new(tier: Tier, tmpdir: PathBuf) -> Ctx {
        Ctx {
            stats: Stats::default(),
            tier,
            tmpdir,
            jawk_panic: None,
            harness_error: None,
            file_counter: 0,
            subs: Vec::new(),
            saved_trace: 0,
            isolate_runs: false,
            name_style: 0,
        }
    }

    /// Run jawk once in the simulated world and account for what happened.
    pub fn exec(&mut self, spec: RunSpec) -> RunOut {
        let out = if self.isolate_runs {
            match std::thread::Builder::new().stack_size(8 << 20).spawn(move || run(spec)).map(|h| h.join()) {
                Ok(Ok(o)) => o,
                _ => {
                    self.harness_error = Some("a run in a thread of its own could not be completed".into());
                    RunOut {
                        outcome: Outcome::Abort("harness".into()),
                        obs: Obs::default(),
                    }
                }
            }
        } else {
            run(spec)
        };
        self.account(&out);
        out
    }

    fn account(&mut self, out: &RunOut) {
        let o = &out.obs;
        let st = &mut self.stats;
        st.runs += 1;
        st.events += o.events.len() as u64;
        st.bytes_in += o.consumed as u64;
        st.bytes_out += (o.stdout.len() + o.stderr.len()) as u64;
        st.fault("read.interrupted", u64::from(o.intr_reads));
        st.fault("read.short", u64::from(o.short_reads));
        st.fault("write.interrupted", u64::from(o.intr_writes));
        st.fault("write.short", u64::from(o.short_writes));
        // abstract trace: run-length compressed (channel, result kind) + outcome class
        let mut t: Vec<u8> = Vec::with_capacity(64);
        let mut last: Option<(u8, u8)> = None;
        let mut runlen: u32 = 0;
        for e in &o.events {
            let c = e.chan as u8;
            let r = match e.res {
                Res::N(_) => 0u8,
                Res::Eof => 1,
                Res::Intr => 2,
                Res::Zero => 3,
                Res::Fail(_) => 4,
                Res::Done => 5,
            };
            if last == Some((c, r)) {
                runlen += 1;
            } else {
                if let Some((lc, lr)) = last {
                    t.push(lc);
                    t.push(lr);
                    // bucket the run length: 1, 2, 3-7, 8+
                    t.push(match runlen {
                        1 => 1,
                        2 => 2,
                        3..=7 => 3,
                        _ => 4,
                    });
                }
                last = Some((c, r));
                runlen = 1;
            }
        }
        if let Some((lc, lr)) = last {
            t.push(lc);
            t.push(lr);
            t.push(match runlen {
                1 => 1,
                2 => 2,
                3..=7 => 3,
                _ => 4,
            });
        }
        t.extend_from_slice(out.outcome.class().as_bytes());
        st.trace = mix(&[st.trace, hash_bytes(&t)]);
        if let Outcome::Panic(m, l) = &out.outcome {
            if l.contains("/verif/sim/") || l.starts_with("src/") {
                if self.harness_error.is_none() {
                    self.harness_error = Some(format!("harness panic at {l}: {m}"));
                }
            } else if self.jawk_panic.is_none() {
                self.jawk_panic = Some((m.clone(), l.clone()));
            }
        }
    }

    /// Start a sub-scenario (one enumerated fault point) with its own abstract trace.
    pub fn sub_begin(&mut self) {
        self.saved_trace = self.stats.trace;
        self.stats.trace = 0;
    }

    pub fn sub_end(&mut self, nontrivial: bool) {
        let t = self.stats.trace;
        self.subs.push((t, nontrivial));
        self.stats.trace = mix(&[self.saved_trace, t]);
        if nontrivial {
            self.stats.nontrivial = true;
        }
    }

    pub fn fold_trace(&mut self, x: u64) {
        self.stats.trace = mix(&[self.stats.trace, x]);
    }

    /// A fresh path in this worker's private directory (on /dev/shm).
    pub fn fresh_path(&mut self, stem: &str) -> PathBuf {
        self.file_counter += 1;
        if self.name_style == 3 {
            // a path longer than 255 bytes whose bytes around `len - 255` belong to multi-byte
            // characters: a long directory in front of a long name
            let d = self.tmpdir.join("日本é".repeat(16));
            let _ = std::fs::create_dir_all(&d);
            return d.join(styled_name(3, stem, self.file_counter));
        }
        self.tmpdir.join(styled_name(self.name_style, stem, self.file_counter))
    }
}

/// A file name in one of the three naming styles of a scenario.
pub fn styled_name(style: u8, stem: &str, k: u32) -> String {
    match style {
        1 => format!("{stem}{k}-ünïcödé-名前がとても長いファイルの名前é.json"),
        2 => format!("{stem}{k},part two.json"),
        // a name that makes the whole path longer than 255 bytes (the name itself stays below
        // the limit of a path component), two- and three-byte characters in turn
        3 => format!("{stem}{k}-{}.json", "é名".repeat(30)),
        _ => format!("{stem}{k}.json"),
    }
}

pub fn viol(rule: &str, detail: String) -> Option<Violation> {
    Some(Violation {
        rule: rule.to_string(),
        detail,
        reduced: None,
    })
}

pub fn show(b: &[u8]) -> String {
    let s = String::from_utf8_lossy(b);
    let mut t: String = s.chars().take(160).collect();
    if s.chars().count() > 160 {
        t.push('…');
    }
    format!("{t:?}")
}

pub fn is_prefix(a: &[u8], b: &[u8]) -> bool {
    a.len() <= b.len() && &b[..a.len()] == a
}

pub fn common_prefix(a: &[u8], b: &[u8]) -> usize {
    a.iter().zip(b.iter()).take_while(|(x, y)| x == y).count()
}

#[derive(Clone, Copy, Debug, PartialEq, Eq)]
pub enum Policy {
    Ignore,
    Panic,
    Stderr,
    Stdout,
}

pub fn policy_of(opts: &[Vec<String>]) -> Policy {
    let mut p = Policy::Ignore;
    for o in opts {
        let v = if let Some(v) = o[0].strip_prefix("--on-error=") {
            Some(v.to_string())
        } else if o[0] == "--on-error" && o.len() > 1 {
            Some(o[1].clone())
        } else {
            None
        };
        if let Some(v) = v {
            p = match v.as_str() {
                "panic" => Policy::Panic,
                "stderr" => Policy::Stderr,
                "stdout" => Policy::Stdout,
                _ => Policy::Ignore,
            };
        }
    }
    p
}

pub fn policy_opt(p: Policy) -> Vec<String> {
    vec![format!(
        "--on-error={}",
        match p {
            Policy::Ignore => "ignore",
            Policy::Panic => "panic",
            Policy::Stderr => "stderr",
            Policy::Stdout => "stdout",
        }
    )]
}

/// The fault-free, whole-buffer reference run of a case on `input`.
pub fn ref_spec(case: &Case, input: &[u8]) -> RunSpec {
    let mut s = RunSpec::plain(&case.argv(), input);
    s.hash_seed = case.hash_seeds.first().copied();
    if case.param("max_events") > 0 {
        s.max_events = case.param("max_events") as usize;
    }
    s
}

/// The run described by the case itself (delivery, faults, sinks) on `input`.
pub fn case_spec(case: &Case, input: &[u8]) -> RunSpec {
    RunSpec {
        argv: case.argv(),
        input: input.to_vec(),
        delivery: case.delivery.clone(),
        rfault: case.rfault.clone(),
        hostile_stdin: false,
        endless: case.endless.clone(),
        byte_budget: 0,
        out: case.out.clone(),
        err: case.err.clone(),
        hash_seed: case.hash_seeds.first().copied(),
        max_events: if case.param("max_events") > 0 { case.param("max_events") as usize } else { 400_000 },
        files: Vec::new(),
        dirs: Vec::new(),
    }
}

/// A random delivery plan for a stream of `len` bytes.
pub fn gen_delivery(rng: &mut Rng, len: usize) -> Delivery {
    let mut d = Delivery::default();
    match rng.below(10) {
        0 => {
            d.whole = true;
            return d;
        }
        1..=3 => d.bufcap = None,
        _ => d.bufcap = Some(*rng.pick(&[1usize, 2, 3, 5, 8, 64, 8192])),
    }
    if rng.chance(2, 3) {
        let n = rng.range(1, 4);
        d.chunks = (0..n)
            .map(|_| *rng.pick(&[1usize, 1, 2, 3, 5, 7, 16, 100]))
            .collect();
    }
    if len > 0 && rng.chance(1, 2) {
        let n = rng.range(1, 3);
        for _ in 0..n {
            // "after any number of Interrupted results": mostly 1..3, sometimes a storm
            let count = if rng.chance(1, 12) { rng.range(40, 300) } else { rng.range(1, 3) };
            d.eintr.push((rng.below(len + 1), count as u32));
        }
        d.eintr.sort_unstable();
        d.eintr.dedup_by_key(|e| e.0);
    }
    d
}

pub fn gen_sink_garnish(rng: &mut Rng, len: usize) -> SinkPlan {
    let mut p = SinkPlan::default();
    if rng.chance(1, 2) {
        let n = rng.range(1, 3);
        p.short = (0..n)
            .map(|_| *rng.pick(&[1usize, 2, 3, 7, 20, 1000]))
            .collect();
    }
    if len > 0 && rng.chance(1, 3) {
        let n = rng.range(1, 2);
        for _ in 0..n {
            p.eintr.push((rng.below(len), rng.range(1, 2) as u32));
        }
        p.eintr.sort_unstable();
        p.eintr.dedup_by_key(|e| e.0);
    }
    p
}

/// Byte offset (in the input) of jawk-side consumption at the moment the n-th stdout byte
/// was accepted, read off the event log. None if that byte was never written.
pub fn consumed_when_out_reached(events: &[Event], n: usize) -> Option<usize> {
    for e in events {
        if e.chan == Chan::Out {
            if let Res::N(k) = e.res {
                if (e.at as usize) + (k as usize) >= n && k > 0 {
                    return Some(e.consumed as usize);
                }
            }
        }
    }
    None
}

/// The byte ranges of the stream between file cuts.
pub fn split_files(case: &Case) -> Vec<Vec<u8>> {
    let stream = case.stream();
    let mut files = Vec::new();
    let mut prev = 0;
    for c in case.cuts() {
        files.push(stream[prev..c].to_vec());
        prev = c;
    }
    files.push(stream[prev..].to_vec());
    files
}

impl Ctx {
    /// `n` fresh paths for file arguments of one scenario.
    pub fn fresh_paths(&mut self, n: usize) -> Vec<String> {
        (0..n)
            .map(|_| self.fresh_path("f").to_string_lossy().to_string())
            .collect()
    }
}

/// A run of the case on simulated file arguments (hook H2): `datas[i]` delivered according
/// to `plans[i]` (missing plans = whole, fault-free) under the given paths.
pub fn sim_files_spec(case: &Case, paths: &[String], datas: &[Vec<u8>], plans: &[FilePlan]) -> RunSpec {
    let mut argv = case.argv();
    argv.push("--".into());
    argv.extend(paths.iter().cloned());
    let mut spec = RunSpec::plain(&argv, b"");
    spec.hash_seed = case.hash_seeds.first().copied();
    if case.param("max_events") > 0 {
        spec.max_events = case.param("max_events") as usize;
    }
    spec.out = case.out.clone();
    spec.err = case.err.clone();
    spec.files = paths
        .iter()
        .zip(datas.iter())
        .enumerate()
        .map(|(i, (p, d))| SimFile {
            path: p.clone(),
            data: d.clone(),
            plan: plans.get(i).cloned().unwrap_or_default(),
            byte_budget: 0,
        })
        .collect();
    spec
}

/// Remove every occurrence of "<path>:" (locations in diagnostics) and of the bare path.
/// A diagnostic may also show a long name shortened to its tail ("...<tail>:2:3: ..."): in
/// a line that starts with `error:` the longest tail (at least six bytes) of a known path
/// that is followed by a colon goes as well, together with the dots in front of it. How an
/// input is named in a diagnostic is not the subject of any property.
pub fn strip_paths(text: &[u8], paths: &[String]) -> Vec<u8> {
    let s = strip_paths_exact(text, paths);
    if !s.windows(6).any(|w| w == b"error:") {
        return s;
    }
    // every diagnostic ("error:" up to the end of its line; with an empty row separator it
    // need not start a line) whose location does not begin with the line number
    let mut out = Vec::with_capacity(s.len());
    let mut i = 0;
    while i < s.len() {
        if !s[i..].starts_with(b"error:") {
            out.push(s[i]);
            i += 1;
            continue;
        }
        let end = s[i..].iter().position(|b| *b == b'\n').map_or(s.len(), |p| i + p);
        let mut l = s[i..end].to_vec();
        if !l.get(6).map_or(true, u8::is_ascii_digit) {
            'paths: for p in paths {
                let pb = p.as_bytes();
                for n in (6..pb.len()).rev() {
                    let mut needle = pb[pb.len() - n..].to_vec();
                    needle.push(b':');
                    if let Some(at) = l.windows(needle.len()).position(|w| w == needle.as_slice()) {
                        let mut from = at;
                        while from > 6 && (l[from - 1] == b'.' || (from >= 9 && l[from - 3..from] == *"…".as_bytes())) {
                            from -= if l[from - 1] == b'.' { 1 } else { 3 };
                        }
                        l.drain(from..at + needle.len());
                        break 'paths;
                    }
                }
            }
        }
        out.extend_from_slice(&l);
        i = end;
    }
    out
}

fn strip_paths_exact(text: &[u8], paths: &[String]) -> Vec<u8> {
    let mut s = text.to_vec();
    for p in paths {
        let needle = format!("{p}:").into_bytes();
        let mut out = Vec::with_capacity(s.len());
        let mut i = 0;
        while i < s.len() {
            if s[i..].starts_with(&needle) {
                i += needle.len();
            } else {
                out.push(s[i]);
                i += 1;
            }
        }
        s = out;
    }
    s
}

/// A random delivery plan for a simulated file of `len` bytes.
pub fn gen_file_plan(rng: &mut Rng, len: usize) -> FilePlan {
    let d = gen_delivery(rng, len);
    FilePlan {
        chunks: d.chunks,
        eintr: d.eintr,
        fault: None,
        endless: None,
        open_fails: None,
        open_blocks: false,
    }
}

/// Bytes delivered by all source devices at the moment the n-th stdout byte was accepted.
pub fn delivered_when_out_reached(events: &[Event], n: usize) -> Option<usize> {
    for e in events {
        if e.chan == Chan::Out {
            if let Res::N(k) = e.res {
                if (e.at as usize) + (k as usize) >= n && k > 0 {
                    return Some(e.delivered as usize);
                }
            }
        }
    }
    None
}

/// Like `sim_files_spec`, but the command line names the directory that holds the files.
/// The directory and nothing else in it must exist; the listing order is the file system's.
pub fn sim_dir_spec(case: &Case, dir: &str, paths: &[String], datas: &[Vec<u8>], plans: &[FilePlan]) -> RunSpec {
    let mut spec = sim_files_spec(case, paths, datas, plans);
    let keep = spec.argv.len() - paths.len();
    spec.argv.truncate(keep);
    spec.argv.push(dir.to_string());
    spec
}

/// Like `sim_files_spec`, but the command line names `args` (directories that hold some of
/// the files, say) instead of the files themselves.
pub fn sim_args_spec(case: &Case, args: &[String], paths: &[String], datas: &[Vec<u8>], plans: &[FilePlan]) -> RunSpec {
    let mut spec = sim_files_spec(case, paths, datas, plans);
    let keep = spec.argv.len() - paths.len();
    spec.argv.truncate(keep);
    spec.argv.extend(args.iter().cloned());
    spec
}

impl Ctx {
    /// A fresh, empty directory in this worker's private directory.
    pub fn fresh_dir(&mut self) -> Option<String> {
        let d = self.fresh_path("d").to_string_lossy().to_string();
        std::fs::create_dir_all(&d).ok()?;
        Some(d)
    }
}

/// How the files of a scenario are spread over directory arguments whose listings the
/// simulator owns (hook H3).
pub struct DirLayout {
    /// what the command line names
    pub args: Vec<String>,
    /// path of file i
    pub paths: Vec<String>,
    /// every simulated directory: its path and its entries (full paths) in layout order
    pub dirs: Vec<(String, Vec<String>)>,
}

/// layout 1: one directory argument holding all files; 2: file 0 as a plain argument, then a
/// directory with the rest; 3: a directory holding file 0 and a sub-directory with the rest;
/// 4: two directory arguments (first half, second half); anything else: as 1.
/// The directories are created (really: jawk asks the file system whether an argument is a
/// directory); the files are placeholders that `run` creates.
pub fn lay_out(root: &str, n: usize, layout: i64, style: u8) -> DirLayout {
    let name = |i: usize| styled_name(style, "f", i as u32);
    let mut args = Vec::new();
    let mut paths = Vec::new();
    let mut dirs: Vec<(String, Vec<String>)> = Vec::new();
    match layout {
        2 if n >= 2 => {
            let p0 = format!("{root}/{}", name(0));
            let d = format!("{root}/d");
            args.push(p0.clone());
            args.push(d.clone());
            paths.push(p0);
            let mut e = Vec::new();
            for i in 1..n {
                let p = format!("{d}/{}", name(i));
                e.push(p.clone());
                paths.push(p);
            }
            dirs.push((d, e));
        }
        3 if n >= 2 => {
            let d = format!("{root}/d");
            let sub = format!("{d}/sub");
            args.push(d.clone());
            let p0 = format!("{d}/{}", name(0));
            paths.push(p0.clone());
            let mut e = Vec::new();
            for i in 1..n {
                let p = format!("{sub}/{}", name(i));
                e.push(p.clone());
                paths.push(p);
            }
            dirs.push((d, vec![p0, sub.clone()]));
            dirs.push((sub, e));
        }
        4 if n >= 2 => {
            let h = n.div_ceil(2);
            for (k, range) in [(0, 0..h), (1, h..n)] {
                let d = format!("{root}/d{k}");
                args.push(d.clone());
                let mut e = Vec::new();
                for i in range {
                    let p = format!("{d}/{}", name(i));
                    e.push(p.clone());
                    paths.push(p);
                }
                dirs.push((d, e));
            }
        }
        _ => {
            let d = format!("{root}/d");
            args.push(d.clone());
            let mut e = Vec::new();
            for i in 0..n {
                let p = format!("{d}/{}", name(i));
                e.push(p.clone());
                paths.push(p);
            }
            dirs.push((d, e));
        }
    }
    for (d, _) in &dirs {
        let _ = std::fs::create_dir_all(d);
    }
    DirLayout { args, paths, dirs }
}

/// The entries of a directory in the order its plan lists them.
pub fn listed(entries: &[String], plan: Option<&DirPlan>) -> Vec<String> {
    let mut out: Vec<String> = Vec::new();
    let mut used = vec![false; entries.len()];
    if let Some(p) = plan {
        for &i in &p.order {
            if i < entries.len() && !used[i] {
                used[i] = true;
                out.push(entries[i].clone());
            }
        }
    }
    for (i, e) in entries.iter().enumerate() {
        if !used[i] {
            out.push(e.clone());
        }
    }
    out
}

/// A run of the case on simulated files inside simulated directories (hooks H2 and H3).
pub fn sim_layout_spec(case: &Case, lay: &DirLayout, datas: &[Vec<u8>], plans: &[FilePlan], dirplans: &[DirPlan]) -> RunSpec {
    let mut spec = sim_args_spec(case, &lay.args, &lay.paths, datas, plans);
    spec.dirs = lay
        .dirs
        .iter()
        .enumerate()
        .map(|(j, (path, entries))| DirSrc {
            path: path.clone(),
            entries: listed(entries, dirplans.get(j)),
            open_fails: dirplans.get(j).and_then(|p| p.open_fails),
            entry_fault: dirplans.get(j).and_then(|p| p.entry_fault.clone()),
        })
        .collect();
    spec
}
