//! Workload generators: abstract values, their spellings ("re-encodings"), record streams,
//! garbage, pipelines. Everything is drawn from the Rng handed in; nothing here runs jawk.

use crate::funcs;
use crate::rng::Rng;

#[derive(Clone, Debug, PartialEq)]
pub enum Val {
    Null,
    Bool(bool),
    /// integer, any magnitude we care about
    Int(i128),
    /// mant * 10^-scale with scale >= 1 and mant % 10 != 0 (so never integral)
    Dec(i64, u32),
    Str(String),
    Arr(Vec<Val>),
    Obj(Vec<(String, Val)>),
}

pub const STR_POOL: &[&str] = &[
    "", "a", "b", "ab", "abc", "aab", "hello", "x y", "A", "é", "aé😀b", "\u{2028}", "\u{ffff}",
    "q\"q", "b\\s", "sl/ash", "tab\tx", "nl\nx", "cr\rx", "\u{1}", "\u{7f}", "\u{1f}", "e", "E",
    "1", "12", "-3", "1.5", "null", "true", "[1]", "{}", "error:", "日本", "ß", "a,b", "a=b",
    "0123456789012345678901234567890é2", "𝒳", "a<b", "x&y<z>", "<&>", "tail\\", "C:\\temp\\", "😀", "\u{1f60}0",
];

const KEY_POOL: &[&str] = &["a", "b", "c", "k", "key", "é", "x y", "", "id", "n"];

pub fn gen_string(rng: &mut Rng) -> String {
    if rng.chance(2, 3) {
        (*rng.pick(STR_POOL)).to_string()
    } else {
        let n = rng.below(6);
        let mut s = String::new();
        const CH: &[char] = &[
            'a', 'b', 'c', 'z', 'A', '0', '9', ' ', '"', '\\', '/', '\n', '\t', '\r', '\u{8}',
            '\u{c}', '\u{0}', '\u{1b}', '\u{7f}', 'é', 'ß', '\u{2028}', '\u{2029}', '\u{ffff}',
            '😀', '𝒳', '-', '.', ',', ':', '[', ']', '{', '}', 'e', 'E', '+',
        ];
        for _ in 0..n {
            s.push(*rng.pick(CH));
        }
        s
    }
}

pub fn gen_interop_int(rng: &mut Rng) -> i128 {
    match rng.below(10) {
        0 => 0,
        1..=5 => rng.range_i64(-20, 20) as i128,
        6 => rng.range_i64(-100_000, 100_000) as i128,
        7 => {
            let k = rng.range_i64(0, 3) as i128;
            (1i128 << 53) - 1 - k
        }
        8 => {
            let k = rng.range_i64(0, 3) as i128;
            -((1i128 << 53) - 1 - k)
        }
        _ => rng.range_i64(-1_000_000_000_000, 1_000_000_000_000) as i128,
    }
}

pub fn gen_big_int(rng: &mut Rng) -> i128 {
    let k = rng.range_i64(0, 2) as i128;
    match rng.below(6) {
        0 => (1i128 << 53) + k,
        1 => -((1i128 << 53) + k),
        2 => (1i128 << 63) - 1 - k,
        3 => -(1i128 << 63) + k,
        4 => (1i128 << 64) - 1 - k,
        _ => (1i128 << 63) + k,
    }
}

pub fn gen_dec(rng: &mut Rng) -> Val {
    let scale = rng.range(1, 4) as u32;
    let mut mant = match rng.below(3) {
        0 => rng.range_i64(-99, 99),
        1 => rng.range_i64(-99_999, 99_999),
        _ => rng.range_i64(-999_999_999, 999_999_999),
    };
    if mant % 10 == 0 {
        mant += 1;
    }
    Val::Dec(mant, scale)
}

pub fn gen_scalar(rng: &mut Rng, allow_big: bool) -> Val {
    match rng.below(12) {
        0 => Val::Null,
        1 => Val::Bool(true),
        2 => Val::Bool(false),
        3..=5 => Val::Int(gen_interop_int(rng)),
        6 => {
            if allow_big {
                Val::Int(gen_big_int(rng))
            } else {
                Val::Int(gen_interop_int(rng))
            }
        }
        7 => gen_dec(rng),
        _ => Val::Str(gen_string(rng)),
    }
}

pub fn gen_val(rng: &mut Rng, depth: usize, allow_big: bool) -> Val {
    if depth == 0 || rng.chance(1, 2) {
        return gen_scalar(rng, allow_big);
    }
    if rng.chance(1, 2) {
        let n = rng.below(4);
        Val::Arr((0..n).map(|_| gen_val(rng, depth - 1, allow_big)).collect())
    } else {
        let n = rng.below(4);
        let mut keys: Vec<String> = Vec::new();
        let mut members = Vec::new();
        for _ in 0..n {
            let k = (*rng.pick(KEY_POOL)).to_string();
            if keys.contains(&k) {
                continue;
            }
            keys.push(k.clone());
            members.push((k, gen_val(rng, depth - 1, allow_big)));
        }
        Val::Obj(members)
    }
}

/// Deeply nested value (for nesting-specific cases), depth <= 64.
pub fn gen_nested(rng: &mut Rng) -> Val {
    let d = rng.range(8, 60);
    let mut v = gen_scalar(rng, false);
    for _ in 0..d {
        v = if rng.chance(1, 2) {
            Val::Arr(vec![v])
        } else {
            Val::Obj(vec![("k".into(), v)])
        };
    }
    v
}

pub const G_POOL: &[&str] = &["a", "b", "c", "", "é", "x y"];

/// A record following the schema the pipeline templates refer to. `id` is unique.
pub fn gen_schema_record(rng: &mut Rng, id: u32) -> Val {
    let mut m: Vec<(String, Val)> = Vec::new();
    m.push(("id".into(), Val::Int(i128::from(id))));
    if rng.chance(4, 5) {
        m.push(("s".into(), Val::Str(gen_string(rng))));
    }
    if rng.chance(4, 5) {
        let n = if rng.chance(3, 4) {
            Val::Int(gen_interop_int(rng))
        } else {
            gen_dec(rng)
        };
        m.push(("n".into(), n));
    }
    if rng.chance(4, 5) {
        m.push(("g".into(), Val::Str((*rng.pick(G_POOL)).to_string())));
    }
    if rng.chance(1, 2) {
        m.push(("h".into(), gen_scalar(rng, false)));
    }
    if rng.chance(3, 4) {
        let n = rng.below(4);
        m.push((
            "arr".into(),
            Val::Arr((0..n).map(|_| gen_val(rng, 1, false)).collect()),
        ));
    }
    if rng.chance(1, 2) {
        m.push(("obj".into(), {
            let n = rng.below(3);
            let keys = ["a", "b", "c"];
            Val::Obj(
                (0..n)
                    .map(|i| (keys[i].to_string(), gen_scalar(rng, false)))
                    .collect(),
            )
        }));
    }
    if rng.chance(1, 4) {
        m.push(("t".into(), Val::Bool(rng.chance(1, 2))));
    }
    if rng.chance(1, 6) {
        // JSON as data: a value, a value with something behind it, two values
        m.push(("txt".into(), Val::Str((*rng.pick(&["[1, 2] [3]", "[1, 2]", "1 2", "{\"a\":1} x", "{\"a\":1}", "7", "[1"])).to_string())));
    }
    if rng.chance(1, 5) {
        // a small program as data (texts that share their beginning)
        m.push(("sel".into(), Val::Str((*rng.pick(&["(>= .id 10)", "(>= .id 1)", "(= .g \"a\")", "(= .g \"b\")", ".n", "(+ .id 1)", "(size .arr)", "(= .id 2)", "(= .id 0)", "(>= .n 0)"])).to_string())));
    }
    Val::Obj(m)
}

/// Any record: mostly schema objects, sometimes other values (scalars, arrays).
pub fn gen_record(rng: &mut Rng, id: u32, allow_big: bool) -> Val {
    match rng.below(10) {
        0 => gen_scalar(rng, allow_big),
        1 => Val::Arr({
            let n = rng.below(4);
            (0..n).map(|_| gen_val(rng, 2, allow_big)).collect()
        }),
        2 => gen_val(rng, 3, allow_big),
        _ => gen_schema_record(rng, id),
    }
}

// ---------------------------------------------------------------------------------------
// Spelling

#[derive(Clone, Copy, Debug)]
pub struct Spell {
    /// 0 = compact canonical, 1 = some variety, 2 = wild
    pub level: u8,
}

fn ws(rng: &mut Rng, level: u8, out: &mut Vec<u8>) {
    if level == 0 {
        return;
    }
    let n = if level == 1 {
        if rng.chance(1, 3) {
            1
        } else {
            0
        }
    } else {
        rng.below(3)
    };
    for _ in 0..n {
        out.push(*rng.pick(&[b' ', b' ', b'\t', b'\n', b'\r']));
    }
}

pub fn spell_string(s: &str, rng: &mut Rng, level: u8, out: &mut Vec<u8>) {
    out.push(b'"');
    for ch in s.chars() {
        let c = ch as u32;
        let short = match ch {
            '"' => Some("\\\""),
            '\\' => Some("\\\\"),
            '\n' => Some("\\n"),
            '\r' => Some("\\r"),
            '\t' => Some("\\t"),
            '\u{8}' => Some("\\b"),
            '\u{c}' => Some("\\f"),
            '/' if level > 0 => Some("\\/"),
            _ => None,
        };
        let must_escape = c < 0x20 || ch == '"' || ch == '\\';
        let can_hex = c < 0x10000 && !(0xD800..0xE000).contains(&c);
        // 0 = raw, 1 = short escape, 2 = \uXXXX
        let mode = if level == 0 {
            if !must_escape {
                0
            } else if short.is_some() {
                1
            } else {
                2
            }
        } else {
            let mut modes: Vec<u8> = Vec::new();
            if !must_escape {
                modes.extend_from_slice(&[0, 0, 0, 0]);
            }
            if short.is_some() {
                modes.extend_from_slice(&[1, 1]);
            }
            if can_hex {
                modes.push(2);
            }
            *rng.pick(&modes)
        };
        match mode {
            0 => {
                let mut b = [0u8; 4];
                out.extend_from_slice(ch.encode_utf8(&mut b).as_bytes());
            }
            1 => out.extend_from_slice(short.unwrap().as_bytes()),
            _ => {
                let h = if level > 0 && rng.chance(1, 2) {
                    format!("\\u{c:04X}")
                } else {
                    format!("\\u{c:04x}")
                };
                out.extend_from_slice(h.as_bytes());
            }
        }
    }
    out.push(b'"');
}

/// Numerically identical spellings of an interoperable integer (|n| < 2^53).
fn spell_int(n: i128, rng: &mut Rng, level: u8, out: &mut Vec<u8>) {
    let interop = n.abs() < (1i128 << 53);
    if level == 0 || !interop {
        out.extend_from_slice(n.to_string().as_bytes());
        return;
    }
    let neg = n < 0;
    let a = n.unsigned_abs();
    let s = match rng.below(8) {
        0 => format!("{a}.0"),
        1 => format!("{a}.000"),
        2 => format!("{a}e0"),
        3 => format!("{a}e+0"),
        4 => format!("{a}0e-1"),
        5 => format!("{a}00e-2"),
        6 if a % 10 == 0 && a != 0 => format!("{}e1", a / 10),
        6 if a != 0 => format!("{a}.0e-0"),
        _ => format!("{a}"),
    };
    if neg {
        out.push(b'-');
    }
    out.extend_from_slice(s.as_bytes());
}

/// Spellings of mant * 10^-scale that denote exactly the same real number.
fn spell_dec(mant: i64, scale: u32, rng: &mut Rng, level: u8, out: &mut Vec<u8>) {
    let neg = mant < 0;
    let digits = mant.unsigned_abs().to_string();
    let sc = scale as usize;
    // canonical: insert the point
    let padded = if digits.len() <= sc {
        format!("{}{}", "0".repeat(sc + 1 - digits.len()), digits)
    } else {
        digits.clone()
    };
    let split = padded.len() - sc;
    let canon = format!("{}.{}", &padded[..split], &padded[split..]);
    let s = if level == 0 {
        canon
    } else {
        match rng.below(6) {
            0 => format!("{canon}0"),
            1 => format!("{canon}e0"),
            2 => format!("{digits}e-{sc}"),
            3 => format!("{digits}0e-{}", sc + 1),
            4 => format!("0.{digits}e{}", digits.len() as i64 - sc as i64),
            _ => canon,
        }
    };
    if neg {
        out.push(b'-');
    }
    out.extend_from_slice(s.as_bytes());
}

pub fn spell_into(v: &Val, rng: &mut Rng, level: u8, out: &mut Vec<u8>) {
    match v {
        Val::Null => out.extend_from_slice(b"null"),
        Val::Bool(true) => out.extend_from_slice(b"true"),
        Val::Bool(false) => out.extend_from_slice(b"false"),
        Val::Int(n) => spell_int(*n, rng, level, out),
        Val::Dec(m, s) => spell_dec(*m, *s, rng, level, out),
        Val::Str(s) => spell_string(s, rng, level, out),
        Val::Arr(xs) => {
            out.push(b'[');
            ws(rng, level, out);
            for (i, x) in xs.iter().enumerate() {
                if i > 0 {
                    out.push(b',');
                    ws(rng, level, out);
                }
                spell_into(x, rng, level, out);
                ws(rng, level, out);
            }
            out.push(b']');
        }
        Val::Obj(ms) => {
            out.push(b'{');
            ws(rng, level, out);
            for (i, (k, x)) in ms.iter().enumerate() {
                if i > 0 {
                    out.push(b',');
                    ws(rng, level, out);
                }
                spell_string(k, rng, level, out);
                ws(rng, level, out);
                out.push(b':');
                ws(rng, level, out);
                spell_into(x, rng, level, out);
                ws(rng, level, out);
            }
            if level >= 2 && !ms.is_empty() && rng.chance(1, 6) {
                // a producer that writes a member twice: the last member once more, same
                // name, same value (whichever of the two a reader keeps, and whichever
                // place it gives it, the object is the same)
                let (k, x) = &ms[ms.len() - 1];
                out.push(b',');
                spell_string(k, rng, level, out);
                out.push(b':');
                spell_into(x, rng, level, out);
            }
            out.push(b'}');
        }
    }
}

pub fn spell(v: &Val, rng: &mut Rng, level: u8) -> Vec<u8> {
    let mut out = Vec::new();
    spell_into(v, rng, level, &mut out);
    out
}

/// May the texts `a` then `b` be concatenated without whitespace and still be two tokens?
pub fn may_touch(a: &[u8], b: &[u8]) -> bool {
    let (Some(&l), Some(&f)) = (a.last(), b.first()) else {
        return false;
    };
    let closes = matches!(l, b'}' | b']' | b'"');
    let opens = matches!(f, b'{' | b'[' | b'"');
    // a number/word followed by a bracket or quote is fine too; two words/numbers are not.
    closes || opens
}

/// A separator between two top-level values.
pub fn gen_gap(rng: &mut Rng, prev: &[u8], next: &[u8], allow_touch: bool) -> Vec<u8> {
    if allow_touch && rng.chance(1, 6) && may_touch(prev, next) {
        return Vec::new();
    }
    let mut g = Vec::new();
    match rng.below(6) {
        0 => g.push(b' '),
        1 => g.extend_from_slice(b"\r\n"),
        2 => {
            let n = rng.range(1, 4);
            for _ in 0..n {
                g.push(*rng.pick(&[b' ', b'\t', b'\n', b'\r']));
            }
        }
        _ => g.push(b'\n'),
    }
    g
}

/// Bytes that cannot start a JSON value and are not whitespace.
pub fn garbage_byte(rng: &mut Rng) -> u8 {
    loop {
        let b = match rng.below(4) {
            0 => *rng.pick(b"}],:.eE+"),
            1 => *rng.pick(b"abcdgxyzXYZ_!@#$%^&*()~;<>?'`|=\\/"),
            2 => rng.range(0x80, 0xff) as u8,
            _ => rng.range(0x01, 0x7f) as u8,
        };
        let bad = matches!(b, b' ' | b'\t' | b'\n' | b'\r' | b'n' | b't' | b'f' | b'"' | b'-' | b'[' | b'{')
            || b.is_ascii_digit();
        if !bad {
            return b;
        }
    }
}

/// A whitespace-delimited run of garbage tokens (a "region"): leading and trailing
/// whitespace included so that it can be dropped into any gap.
/// Garbage tokens a lenient reader is tempted to treat specially: byte-order marks, bytes
/// that other notions of "whitespace" include (VT, FF, the C0 separators, NEL, NBSP, LS).
pub const SPECIAL_GARBAGE: &[&[u8]] = &[
    b"\xef\xbb\xbf", b"\xff\xfe", b"\xfe\xff", b"\x0c", b"\x0b", b"\x0c\x0c", b"\x1c", b"\x1f", b"\xc2\x85",
    b"\xc2\xa0", b"\xe2\x80\xa8", b"\x00", b"\x7f", b"\xef\xbb", b"\x08",
    // what other dialects call a comment
    b"//", b"/*", b"/*x*/", b"#", b"//x",
    // what other producers write for values JSON does not have
    b"NaN", b"Infinity", b"undefined", b"None", b"True", b"False", b"NULL",
    // containers and words that go wrong before they are complete
    b"[}", b"{]", b"[x]", b"[1,]", b"{\"a\"}", b"[[}",
];

/// Values that almost are JSON: strings with escapes a decoder has to think about (halves
/// of surrogate pairs, short or non-hex \u, unknown escapes), strings that are not UTF-8,
/// numbers and containers that break the grammar late. Not garbage in C06's sense (they
/// start like a value); whatever jawk makes of them, it must make it record-locally and
/// without mistaking an I/O failure in the middle of one for a property of the text.
pub const MALFORMED_VALUES: &[&[u8]] = &[
    b"\"\\ud83d\\ude00\"", b"\"a\\ud83dz\"", b"\"\\udc00\"", b"\"\\ud83d\"", b"[\"\\ud800\\u0041\"]", b"{\"k\":\"\\ud83d\\ude00\"}",
    b"\"\\x41\"", b"\"\\u12\"", b"\"\\u12G4\"", b"\"\\U0041\"", b"\"caf\xe9\"", b"{\"k\xff\":1}", b"\"\xed\xa0\x80\"",
    b"01", b"1.", b"-", b"+1", b".5", b"1e", b"1e+", b"0x10", b"[1 2]", b"{\"a\" 1}", b"{\"a\":1,}", b"[,1]", b"{1:2}", b"[1,,2]",
    b"{\"a\":}", b"'single'", b"nul", b"truefalse", b"[1]]", b"{\"a\":1}}",
];

/// Garbage that opens a container and then goes wrong (for long histories).
pub const BROKEN_STARTS: &[&[u8]] = &[b"[}", b"{]", b"[x]", b"[1,]", b"{\"a\"}", b"[[}"];

/// Words and numbers that stop before they are complete (no JSON value starts like this and
/// ends here). The pinned tree's diagnostic for them quotes the byte that follows - a line
/// feed, say - verbatim, so where diagnostics are printed they are followed by a blank.
pub const BROKEN_WORDS: &[&[u8]] = &[b"tru", b"nul", b"fals", b"-", b"t", b"2e", b"1e+", b"--", b"-e", b"- -"];

/// What other tools put in front of a text file: byte-order marks (whole and cut), a
/// shebang, a form feed. Garbage for jawk like any other byte that cannot start a value.
pub const HEADER_JUNK: &[&[u8]] = &[b"\xef\xbb\xbf", b"\xef\xbb\xbf", b"\xff\xfe", b"\xfe\xff", b"\xef\xbb", b"#!", b"\x0c", b"\x00"];

/// One header token and one whitespace byte: a garbage region for the very start of an input.
pub fn gen_header_junk(rng: &mut Rng) -> Vec<u8> {
    let mut g = rng.pick(HEADER_JUNK).to_vec();
    g.push(*rng.pick(&[b'\n', b' ', b'\n', b'\r']));
    g
}

pub fn gen_garbage_region(rng: &mut Rng) -> Vec<u8> {
    let mut g = Vec::new();
    g.push(*rng.pick(&[b' ', b'\n', b'\n', b'\t']));
    let tokens = rng.range(1, 3);
    for t in 0..tokens {
        if t > 0 {
            g.push(*rng.pick(&[b' ', b'\n']));
        }
        if rng.chance(1, 6) {
            let t: &[u8] = *rng.pick(SPECIAL_GARBAGE);
            g.extend_from_slice(t);
            continue;
        }
        let n = rng.range(1, 4);
        for _ in 0..n {
            g.push(garbage_byte(rng));
        }
    }
    g.push(*rng.pick(&[b' ', b'\n', b'\n', b'\r']));
    g
}

// ---------------------------------------------------------------------------------------
// Pipelines

#[derive(Clone, Copy, Debug, PartialEq, Eq, PartialOrd, Ord)]
pub enum Class {
    Stateless,
    Streaming,
    Buffering,
}

#[derive(Clone, Copy, Debug, PartialEq, Eq)]
pub enum Style {
    Json,
    Csv,
    Text,
}

#[derive(Clone, Debug)]
pub struct Pipe {
    /// option groups; each inner vector is one option with its value(s)
    pub opts: Vec<Vec<String>>,
    pub class: Class,
    pub style: Style,
    pub selects: usize,
    pub uses_regex: bool,
}

pub const SELECT_EXPRS: &[&str] = &[
    ".id", ".s", ".n", ".g", ".h", ".arr", ".obj", ".obj.a", ".arr#0", "#0", "#1", ".", ".t",
    "(size .)", "(size .arr)", "(len .s)", "(+ .n 1)", "(* .n 2)", "(- .n)", "(/ .n 4)",
    "(% .id 3)", "(concat .s \"-\" .g)", "(map .arr (+ . 1))", "(filter .arr (number? .))",
    "(? (> .n 0) \"pos\" \"neg\")", "(stringify .)", "(| .obj .a)", "(set \"v\" .n (+ :v :v))",
    "(define \"m\" (.+ 1) (map .arr @m))", "(.get \"s\")", "(get . \"n\")", "(default .h 0)",
    "(keys .obj)", "(values .obj)", "(entries .obj)", "(sort .arr)", "(first .arr)",
    "(last .arr)", "(sum .arr)", "(join .arr \",\")", "(take .arr 2)", "(sub .arr 1 2)",
    "(reverese .arr)", "(push .arr .id)", "(indexed .arr)", "(flat_map .arr (as_array .))",
    "(fold .arr 0 (+ .so_far .index))", "(range 3)", "(zip .arr .arr)", "(as_string .n)",
    "(as_number .s)", "(string? .s)", "(empty? .arr)", "(null? .h)", "(= .n .h)",
    "(< .n 10)", "(and (number? .n) (> .n 0))", "(or (null? .h) (string? .h))",
    "(not (bool? .t))", "(and .t .h)", "(and .h .t)", "(or .t .h)", "(and .t .s .h)", "(or .h .s)", "(abs .n)", "(round .n)", "(floor .n)", "(ceil .n)",
    "(split .s \"a\")", "(\"+\" \"1.5\" \"2.25\")",
    "(parse (stringify .obj))", "(put .obj \"z\" .id)", "(sort_by_keys .obj)",
    "(map_values .obj (stringify .))", "(filter_keys .obj (= . \"a\"))", "(group_by .arr (stringify .))",
    "(sort_by .arr (stringify .))", "(sort_unique .arr)", "(any (map .arr (number? .)))",
    "(map .arr ^.id)", "(map .arr (| ^.g (concat . \"!\")))", "(cross .arr [1, 2])",
    "\"const\"", "12", "[1, 2]", "null",
    // a variable rebound from the record on every evaluation
    "(set \"f\" .g (format_time .id :f))", "(set \"sep\" .g (join .arr :sep))", "(set \"d\" .g (split .s :d))",
    "(set \"k\" .g (get .obj :k))",
    // programs and keys that come from the data: whatever a function remembers about the
    // text or the key of one record meets another text, another key, in the next one
    "(parse .txt)", "(parse_selection .sel)", "(parse_selection (concat \"(>= .id \" (stringify (% .id 3)) \")\"))",
    "(group_by .arr .)", "(group_by (values .obj) .)", "(sort_by .arr (size .))", "(group_by .arr (? (string? .) . 1))",
    // references to the parent input where a stage or a function has derived the context
    "^.", "^.id", "^^.g", "(set \"v\" 1 ^.)", "(map . (set \"v\" 1 ^.))", "(define \"q\" ^.id @q)",
    "(| .arr (| . ^^.id))", "(map .arr (set \"w\" . ^.id))", "(filter .arr (= ^.id 1))",
    "(set \"v\" .id (map .arr (+ :v ^.id)))",
];

pub const REGEX_SELECT_EXPRS: &[&str] = &[
    "(match .s \"^a\")", "(match .s \"b$\")", "(match .g \"[a-c]\")", "(match .s .g)",
    "(match .g .s)", "(extract_regex_group .s \"(a+)(b*)\" 1)", "(match .s \"a|é\")",
    "(match (stringify .id) \"[02468]$\")", "(match .s \"(\")", "(extract_regex_group .s \"(a)|(b)\" 1)",
    "(extract_regex_group .s \"(x)?(a)\" 1)", "(match .s \"[0-9\")", "(set \"p\" .g (match .s :p))",
    "(match (extract_regex_group .s \"(a+)\" 0) \"a\")", "(extract_regex_group (stringify (match .s \"a\")) \"(t)\" 1)",
];

pub const FILTER_EXPRS: &[&str] = &[
    "(> .n 0)", "(string? .s)", "(= .g \"a\")", "(and (number? .n) (< .n 100))",
    "(not (null? .h))", "true", "false", "(number? .id)", "(= (% .id 2) 0)", "(object? .)",
    "(array? .)", "(> (size .arr) 1)", "(!= .g \"b\")", "(or (string? .) (number? .))",
    "(<= .id 5)", ".t", "(empty? .s)", "(= ^.g \"a\")", "(> ^.n 0)", "(string? ^.s)", "(= ^^.g \"a\")",
];

pub const REGEX_FILTER_EXPRS: &[&str] = &["(match .s \"a\")", "(match .g \"^[ab]$\")", "(match .s .g)"];

pub const SPLIT_EXPRS: &[&str] = &[
    ".arr", ".", "(values .obj)", "(keys .obj)", "(range 3)", "(split .s \"a\")",
    "(push .arr .id)", "(as_array .)", "(map .arr (stringify .))", "[1, 2]", "(entries .obj)",
];

pub const SORT_EXPRS: &[&str] = &[".n", ".s", ".id", ".g", ".h", "(size .arr)", ".", "(stringify .)"];
pub const GROUP_EXPRS: &[&str] = &[".g", ".s", "(stringify .n)", "(stringify .id)", "(as_string .t)"];

pub const SET_OPTS: &[&str] = &[
    "one=1", "name=\"N\"", "lst=[1, 2, 3]", "@inc=(+ . 1)", "@sid=(stringify .id)", "pi=3.14",
    "o={\"a\": 1}", "@mis=.missing",
    // macros that call a macro their caller binds (8), or one that is pre-set (9) and
    // shadowed for some values only (10 needs 9)
    "@each=(map .arr @f)", "@unit=\"m\"", "@show=(concat (stringify .id) @unit)",
    // plain variables whose expressions look at the input - there is none when they are
    // calculated - and still have a value (11, 12, 13)
    "dflt=(default .g \"none\")", "isnum=(stringify (number? .))", "isobj=(? (object? .) 1 2)",
    // a macro whose body refers to an earlier selection by name (14): what it sees depends on
    // where it is expanded
    "@ref=/c0/",
];

pub const SET_USERS: &[&str] = &[
    "(+ :one .n)", "(concat :name .s)", "(map :lst (+ . :one))", "(map .arr @inc)", "@sid",
    "(get :o \"a\")", "(* :pi 2)", "@mis",
    "(? .t (define \"f\" (+ . 100) @each) (define \"f\" (stringify .) @each))",
    "(? (= .g \"a\") (define \"unit\" .g @show) @show)",
    "(? (> .n 0) (define \"inc\" (- . 1) (map .arr @inc)) (map .arr @inc))",
    "(concat :dflt \"-\" .g)", "(stringify :isnum)", "(+ :isobj .id)",
    "(map .arr (default @ref 7))", "(stringify @ref)",
];

#[derive(Clone, Copy, Debug)]
pub struct PipeWish {
    pub max_class: Class,
    /// None = any
    pub style: Option<Style>,
    pub allow_only_objects: bool,
    pub allow_corpus: bool,
    /// keep the default row separator and JSON style family
    pub default_rows: bool,
    pub allow_regex: bool,
}

impl PipeWish {
    pub fn any() -> Self {
        PipeWish {
            max_class: Class::Buffering,
            style: None,
            allow_only_objects: true,
            allow_corpus: true,
            default_rows: false,
            allow_regex: true,
        }
    }
}

fn pick_select(rng: &mut Rng, wish: &PipeWish, uses_regex: &mut bool, sets: &[usize]) -> String {
    let r = rng.below(20);
    if r == 0 && wish.allow_corpus {
        let c = funcs::corpus();
        if !c.is_empty() {
            return rng.pick(c).expr.clone();
        }
    }
    if r <= 2 && wish.allow_regex {
        *uses_regex = true;
        return (*rng.pick(REGEX_SELECT_EXPRS)).to_string();
    }
    if r == 3 && !sets.is_empty() {
        return SET_USERS[*rng.pick(sets)].to_string();
    }
    (*rng.pick(SELECT_EXPRS)).to_string()
}

/// which SET_USERS are usable given chosen SET_OPTS indices
fn set_users_for(chosen: &[usize]) -> Vec<usize> {
    let mut v = Vec::new();
    let has = |i: usize| chosen.contains(&i);
    if has(0) {
        v.push(0);
    }
    if has(1) {
        v.push(1);
    }
    if has(2) && has(0) {
        v.push(2);
    }
    if has(3) {
        v.push(3);
    }
    if has(4) {
        v.push(4);
    }
    if has(6) {
        v.push(5);
    }
    if has(5) {
        v.push(6);
    }
    if has(7) {
        v.push(7);
    }
    if has(8) {
        v.push(8);
    }
    if has(9) && has(10) {
        v.push(9);
    }
    if has(3) {
        v.push(10);
    }
    if has(11) {
        v.push(11);
    }
    if has(12) {
        v.push(12);
    }
    if has(13) {
        v.push(13);
    }
    if has(14) {
        v.push(14);
        v.push(15);
    }
    v
}

pub fn gen_pipe(rng: &mut Rng, wish: &PipeWish) -> Pipe {
    let mut opts: Vec<Vec<String>> = Vec::new();
    let mut class = Class::Stateless;
    let mut uses_regex = false;
    let style = match wish.style {
        Some(s) => s,
        None => match rng.below(10) {
            0 | 1 => Style::Csv,
            2 | 3 => Style::Text,
            _ => Style::Json,
        },
    };
    // --set
    let mut chosen_sets: Vec<usize> = Vec::new();
    if rng.chance(1, 4) {
        // (one in ten of these defines many names)
        let n = if rng.chance(1, 10) { rng.range(5, 8) } else { rng.range(1, 3) };
        for _ in 0..n {
            let i = rng.below(SET_OPTS.len());
            if i == 10 && !chosen_sets.contains(&9) {
                chosen_sets.push(9);
                opts.push(vec!["--set".into(), SET_OPTS[9].into()]);
            }
            if !chosen_sets.contains(&i) {
                chosen_sets.push(i);
                opts.push(vec!["--set".into(), SET_OPTS[i].into()]);
            }
        }
    }
    let users = set_users_for(&chosen_sets);
    if rng.chance(1, 4) {
        opts.push(vec![format!("--split-by={}", rng.pick(SPLIT_EXPRS))]);
    }
    if rng.chance(1, 3) {
        let f = if wish.allow_regex && rng.chance(1, 5) {
            uses_regex = true;
            *rng.pick(REGEX_FILTER_EXPRS)
        } else {
            *rng.pick(FILTER_EXPRS)
        };
        // (a macro that refers to a selection, expanded where no selection exists yet)
        let f = if chosen_sets.contains(&14) && rng.chance(1, 2) { "(not (number? @ref))" } else { f };
        opts.push(vec![format!("--filter={f}")]);
    }
    let mut selects = 0;
    // one pipeline in thirty is wide: more columns than a test would write
    let wide = rng.chance(1, 30);
    let want_selects = match style {
        _ if wide => rng.range(9, 14),
        Style::Csv => rng.range(1, 4),
        _ => {
            if rng.chance(1, 2) {
                rng.range(1, 3)
            } else {
                0
            }
        }
    };
    let mut names: Vec<String> = Vec::new();
    for i in 0..want_selects {
        let mut e = pick_select(rng, wish, &mut uses_regex, &users);
        if i > 0 && rng.chance(1, 6) {
            // refer to an earlier selection by name
            e = format!("/{}/", names[rng.below(names.len())]);
        }
        let name = format!("c{i}");
        names.push(name.clone());
        let flag = *rng.pick(&["--select", "--choose", "-c"]);
        opts.push(vec![flag.into(), format!("{e}={name}")]);
        selects += 1;
    }
    if wish.max_class >= Class::Streaming {
        if rng.chance(1, 5) {
            opts.push(vec!["--unique".into()]);
            class = class.max(Class::Streaming);
        }
        if rng.chance(1, 6) {
            opts.push(vec![format!("--skip={}", rng.below(4))]);
            class = class.max(Class::Streaming);
        }
        if rng.chance(1, 5) {
            // (one limit in twenty-five is the "no limit" idiom: a number no input reaches)
            if rng.chance(1, 25) {
                opts.push(vec![format!("--take={}", rng.pick(&[u64::MAX, 1u64 << 62, 1u64 << 50, u64::MAX - 3]))]);
            } else {
                opts.push(vec![format!("--take={}", rng.below(6))]);
            }
            class = class.max(Class::Streaming);
        }
        if wish.allow_only_objects && rng.chance(1, 8) {
            opts.push(vec!["--only-objects-and-arrays".into()]);
            class = class.max(Class::Streaming);
        }
    }
    if wish.max_class >= Class::Buffering {
        if rng.chance(1, 5) {
            let n = if rng.chance(1, 15) { rng.range(3, 5) } else { rng.range(1, 2) };
            for _ in 0..n {
                let dir = *rng.pick(&["", "=DESC", "=asc", "=ASC", "=desc"]);
                if !names.is_empty() && rng.chance(1, 5) {
                    // sort by a previously selected column
                    opts.push(vec![format!("--sort-by=/{}/{}", rng.pick(&names), dir)]);
                } else {
                    opts.push(vec![format!("--sort-by={}{}", rng.pick(SORT_EXPRS), dir)]);
                }
            }
            class = Class::Buffering;
        }
        if style != Style::Csv && rng.chance(1, 6) {
            if rng.chance(1, 2) {
                opts.push(vec![format!("--group-by={}", rng.pick(GROUP_EXPRS))]);
            } else {
                opts.push(vec!["--merge".into()]);
            }
            class = Class::Buffering;
        }
    }
    // output style
    match style {
        Style::Json => {
            if !wish.default_rows {
                if rng.chance(1, 3) {
                    opts.push(vec![format!(
                        "--style={}",
                        rng.pick(&["one-line", "consise", "pretty"])
                    )]);
                }
                if rng.chance(1, 5) {
                    opts.push(vec!["--utf8-strings".into()]);
                }
            }
        }
        Style::Csv => opts.push(vec!["--output-style=csv".into()]),
        Style::Text => {
            opts.push(vec!["-o".into(), "text".into()]);
            if rng.chance(1, 3) {
                opts.push(vec!["--headers".into()]);
                if selects == 0 {
                    // headers need a selection
                    opts.push(vec!["--select".into(), ".id=id".into()]);
                    selects += 1;
                }
            }
            if rng.chance(1, 4) {
                opts.push(vec!["--items-seperator=;".into()]);
            }
            if rng.chance(1, 5) {
                opts.push(vec!["--missing-value-keyword=NA".into()]);
            }
            if rng.chance(1, 6) {
                opts.push(vec![format!("--null-keyword={}", rng.pick(&["NIL", "", "n/a"]))]);
            }
            if rng.chance(1, 8) {
                opts.push(vec!["--true-keyword=yes".into()]);
                opts.push(vec!["--false-keyword=no".into()]);
            }
            if rng.chance(1, 6) {
                opts.push(vec!["--string-prefix=<".into()]);
                opts.push(vec!["--string-postfix=>".into()]);
            }
            if rng.chance(1, 4) {
                // escape sequences, some of which contain a character another one escapes
                let mut pool = vec!["<&lt;", "&&amp;", ">&gt;", "a[a]", "\t\\t", "e3", "\"\\\"", ";\\;", "ab", "bc", "ca"];
                rng.shuffle(&mut pool);
                for e in pool.iter().take(rng.range(1, 4)) {
                    opts.push(vec![format!("--escape-sequance={e}")]);
                }
                // escapes apply to strings printed at the top level of a cell
                if rng.chance(2, 3) {
                    opts.push(vec!["--select".into(), format!("{}=esc", rng.pick(&[".s", ".g", "(concat .s .g)"]))]);
                    selects += 1;
                }
            }
        }
    }
    if !wish.default_rows && rng.chance(1, 6) {
        opts.push(vec![format!(
            "--row-seperator={}",
            rng.pick(&[",", "\n---\n", ";\n", "", "\r\n"])
        )]);
    }
    // a group-by/merge run with --headers or csv would be a configuration error; avoid
    let grouped = opts
        .iter()
        .any(|o| o[0].starts_with("--group-by") || o[0] == "--merge");
    if grouped {
        opts.retain(|o| o[0] != "--headers");
    }
    if rng.chance(1, 3) {
        opts.push(vec![format!(
            "--regular-expression-cache-size={}",
            rng.pick(&[0usize, 1, 2, 64])
        )]);
    }
    // option order on the command line is free (relative order of selects/sorts is kept
    // by a stable partition: only move non-select/sort options around)
    if rng.chance(1, 2) {
        let mut movable: Vec<Vec<String>> = Vec::new();
        let mut fixed: Vec<Vec<String>> = Vec::new();
        for o in opts {
            let k = &o[0];
            if k == "--select" || k == "--choose" || k == "-c" || k.starts_with("--sort-by") {
                fixed.push(o);
            } else {
                movable.push(o);
            }
        }
        rng.shuffle(&mut movable);
        let cut = rng.below(movable.len() + 1);
        let tail = movable.split_off(cut);
        let mut all = movable;
        all.extend(fixed);
        all.extend(tail);
        opts = all;
    }
    Pipe {
        opts,
        class,
        style,
        selects,
        uses_regex,
    }
}

pub fn flatten(opts: &[Vec<String>]) -> Vec<String> {
    opts.iter().flatten().cloned().collect()
}

/// Classify an option list structurally (used when replaying / shrinking changed the list).
pub fn classify(opts: &[Vec<String>]) -> Class {
    let mut c = Class::Stateless;
    for o in opts {
        let k = o[0].as_str();
        if k.starts_with("--sort-by")
            || k.starts_with("--order-by")
            || k.starts_with("--group-by")
            || k == "--merge"
            || k.starts_with("--combine")
            || k == "-s"
            || k == "-g"
        {
            c = Class::Buffering;
        } else if k == "--unique"
            || k == "-u"
            || k.starts_with("--skip")
            || k.starts_with("--take")
            || k.starts_with("--limit")
            || k == "--only-objects-and-arrays"
            || k == "-k"
            || k == "-t"
        {
            c = c.max(Class::Streaming);
        }
    }
    c
}

pub fn has_opt(opts: &[Vec<String>], prefix: &str) -> bool {
    opts.iter().any(|o| o[0].starts_with(prefix))
}

// ---------------------------------------------------------------------------------------
// Streams

use crate::case::{Kind, Piece};

#[derive(Clone, Copy, Debug)]
pub struct StreamWish {
    pub min_records: usize,
    pub max_records: usize,
    /// probability (num/8) that a gap carries a garbage region
    pub noise_eighths: usize,
    pub allow_touch: bool,
    pub spell_level: u8,
    pub allow_big: bool,
    pub schema_only: bool,
}

impl StreamWish {
    pub fn clean(max_records: usize) -> Self {
        StreamWish {
            min_records: 0,
            max_records,
            noise_eighths: 0,
            allow_touch: true,
            spell_level: 1,
            allow_big: true,
            schema_only: false,
        }
    }
}

/// Records with gaps (and garbage regions) between them. Record ids are 0,1,2,…
pub fn gen_stream(rng: &mut Rng, w: &StreamWish) -> Vec<Piece> {
    let n = rng.range(w.min_records, w.max_records);
    let mut recs: Vec<Vec<u8>> = Vec::new();
    for i in 0..n {
        let v = if w.schema_only {
            gen_schema_record(rng, i as u32)
        } else {
            gen_record(rng, i as u32, w.allow_big)
        };
        let lvl = if w.spell_level == 0 {
            0
        } else if rng.chance(1, 4) {
            2
        } else {
            w.spell_level
        };
        recs.push(spell(&v, rng, lvl));
    }
    let mut pieces = Vec::new();
    let garbage = |rng: &mut Rng, pieces: &mut Vec<Piece>| {
        if w.noise_eighths > 0 && rng.chance(w.noise_eighths, 8) {
            pieces.push(Piece::garbage(gen_garbage_region(rng)));
            true
        } else {
            false
        }
    };
    // leading
    if rng.chance(1, 4) {
        pieces.push(Piece::gap(gen_gap(rng, b"", b"", false)));
    }
    if garbage(rng, &mut pieces) && pieces.len() == 1 && rng.chance(1, 2) {
        // the very first bytes of the stream are junk (a byte-order mark, say)
        let b = &mut pieces[0].bytes.0;
        while b.first().map_or(false, |c| matches!(c, b' ' | b'\t' | b'\n' | b'\r')) {
            b.remove(0);
        }
        if rng.chance(1, 2) {
            *b = gen_header_junk(rng);
        }
    }
    for i in 0..n {
        pieces.push(Piece::rec(recs[i].clone(), i as u32));
        if i + 1 < n {
            let had_garbage = garbage(rng, &mut pieces);
            if !had_garbage {
                let g = gen_gap(rng, &recs[i], &recs[i + 1], w.allow_touch);
                if !g.is_empty() {
                    pieces.push(Piece::gap(g));
                }
            }
        }
    }
    // trailing
    if n > 0 {
        garbage(rng, &mut pieces);
        if rng.chance(3, 4) {
            pieces.push(Piece::gap(vec![b'\n']));
        }
    }
    pieces
}

pub fn count_kind(pieces: &[Piece], k: Kind) -> usize {
    pieces.iter().filter(|p| p.kind == k).count()
}

/// A garbage piece holding whitespace and a string, array or object cut strictly inside
/// (a producer that died inside a value): never a complete JSON value.
pub fn gen_truncated_tail(rng: &mut Rng) -> Piece {
    let v = match rng.below(3) {
        0 => Val::Str(gen_string(rng) + "x"),
        1 => Val::Arr(vec![gen_val(rng, 2, false), gen_val(rng, 1, false)]),
        _ => Val::Obj(vec![("k".into(), gen_val(rng, 2, false)), ("s".into(), Val::Str(gen_string(rng)))]),
    };
    let text = spell(&v, rng, 1);
    let cut = rng.range(1, text.len() - 1);
    let mut g = vec![*rng.pick(&[b' ', b'\n'])];
    g.extend_from_slice(&text[..cut]);
    let mut p = Piece::garbage(g);
    p.tag = "truncated".into();
    p
}
