//! One in-process execution of the real `jawk::go` inside a simulated world.

use crate::world::*;
use clap::Parser;
use std::cell::RefCell;
use std::panic::{catch_unwind, AssertUnwindSafe};
use std::rc::Rc;

#[derive(Clone, Debug, PartialEq)]
pub enum Outcome {
    Ok,
    /// `go` returned Err (Display text)
    Err(String),
    /// clap rejected argv before `go` was reached
    Clap(String),
    /// jawk (or a dependency) panicked: message, location
    Panic(String, String),
    /// the simulator stopped the run (liveness budget)
    Abort(String),
}

impl Outcome {
    pub fn class(&self) -> &'static str {
        match self {
            Outcome::Ok => "ok",
            Outcome::Err(_) => "err",
            Outcome::Clap(_) => "clap",
            Outcome::Panic(..) => "panic",
            Outcome::Abort(_) => "abort",
        }
    }
    pub fn is_ok(&self) -> bool {
        matches!(self, Outcome::Ok)
    }
    pub fn is_err(&self) -> bool {
        matches!(self, Outcome::Err(_))
    }
    pub fn describe(&self) -> String {
        match self {
            Outcome::Ok => "Ok".into(),
            Outcome::Err(e) => format!("Err({e})"),
            Outcome::Clap(e) => format!("ClapErr({})", e.lines().next().unwrap_or("")),
            Outcome::Panic(m, l) => format!("PANIC at {l}: {m}"),
            Outcome::Abort(m) => format!("SIM-ABORT: {m}"),
        }
    }
}

thread_local! {
    static LAST_PANIC: RefCell<Option<(String, String)>> = const { RefCell::new(None) };
}

/// Install a silent panic hook that records message and location per thread.
pub fn install_panic_hook() {
    std::panic::set_hook(Box::new(|info| {
        let loc = info
            .location()
            .map(|l| format!("{}:{}", l.file(), l.line()))
            .unwrap_or_else(|| "?".into());
        let msg = if let Some(s) = info.payload().downcast_ref::<&str>() {
            (*s).to_string()
        } else if let Some(s) = info.payload().downcast_ref::<String>() {
            s.clone()
        } else if info.payload().downcast_ref::<SimAbort>().is_some() {
            "SimAbort".to_string()
        } else {
            "<non-string panic payload>".to_string()
        };
        LAST_PANIC.with(|p| *p.borrow_mut() = Some((msg, loc)));
    }));
}

pub struct RunSpec {
    /// arguments after the program name, files included
    pub argv: Vec<String>,
    pub input: Vec<u8>,
    pub delivery: Delivery,
    pub rfault: Option<Fault>,
    pub hostile_stdin: bool,
    pub endless: Option<Endless>,
    pub byte_budget: usize,
    pub out: SinkPlan,
    pub err: SinkPlan,
    pub hash_seed: Option<u64>,
    pub max_events: usize,
    /// simulated file arguments (hook H2): the paths must also appear in argv
    pub files: Vec<SimFile>,
    /// simulated directory listings (hook H3); a directory that is not named here is listed
    /// by the real file system
    pub dirs: Vec<DirSrc>,
}

pub struct SimFile {
    pub path: String,
    pub data: Vec<u8>,
    pub plan: FilePlan,
    pub byte_budget: usize,
}

impl RunSpec {
    pub fn plain(argv: &[String], input: &[u8]) -> RunSpec {
        RunSpec {
            argv: argv.to_vec(),
            input: input.to_vec(),
            delivery: Delivery {
                whole: true,
                ..Delivery::default()
            },
            rfault: None,
            hostile_stdin: false,
            endless: None,
            byte_budget: 0,
            out: SinkPlan::default(),
            err: SinkPlan::default(),
            hash_seed: Some(0),
            max_events: 400_000,
            files: Vec::new(),
            dirs: Vec::new(),
        }
    }
}

pub struct RunOut {
    pub outcome: Outcome,
    pub obs: Obs,
}

pub fn run(spec: RunSpec) -> RunOut {
    let args = std::iter::once("jawk".to_string()).chain(spec.argv.iter().cloned());
    let cli = match jawk::Cli::try_parse_from(args) {
        Ok(c) => c,
        Err(e) => {
            return RunOut {
                outcome: Outcome::Clap(e.to_string()),
                obs: Obs::default(),
            };
        }
    };
    let delivery = spec.delivery.clone();
    let paths: Vec<String> = spec.files.iter().map(|f| f.path.clone()).collect();
    for p in &paths {
        // jawk checks that a file argument exists before it opens it
        let _ = std::fs::write(p, b"");
    }
    let has_dirs = !spec.dirs.is_empty();
    let w = new_world(WorldSpec {
        dirs: spec.dirs,
        input: spec.input,
        delivery: spec.delivery,
        rfault: spec.rfault,
        hostile_stdin: spec.hostile_stdin,
        endless: spec.endless,
        byte_budget: spec.byte_budget,
        files: spec
            .files
            .into_iter()
            .map(|f| FileSrc {
                data: f.data,
                plan: f.plan,
                byte_budget: f.byte_budget,
            })
            .collect(),
        out: spec.out,
        err: spec.err,
        max_events: spec.max_events,
    });
    #[cfg(yift_jawk_verif)]
    jawk::verif::set_hash_seed(spec.hash_seed);
    #[cfg(not(yift_jawk_verif))]
    let _ = spec.hash_seed;
    #[cfg(yift_jawk_verif)]
    {
        if paths.is_empty() {
            jawk::verif::set_file_opener(None);
        } else {
            let w4 = w.clone();
            let known = paths.clone();
            jawk::verif::set_file_opener(Some(Box::new(move |p: &std::path::Path| {
                let i = known.iter().position(|k| std::path::Path::new(k) == p)?;
                Some(open_file(&w4, i).map(|s| Box::new(s) as Box<dyn std::io::Read>))
            })));
        }
    }
    #[cfg(yift_jawk_verif)]
    {
        if has_dirs {
            let w5 = w.clone();
            jawk::verif::set_dir_lister(Some(Box::new(move |p: &std::path::Path| {
                let i = find_dir(&w5, p)?;
                Some(open_dir(&w5, i).map(|l| Box::new(l) as jawk::verif::DirEntries))
            })));
        } else {
            jawk::verif::set_dir_lister(None);
        }
    }
    #[cfg(not(yift_jawk_verif))]
    let _ = has_dirs;
    LAST_PANIC.with(|p| *p.borrow_mut() = None);
    let w2 = w.clone();
    let res = catch_unwind(AssertUnwindSafe(move || {
        let (o, e) = sinks(&w2);
        let stdout: Rc<RefCell<dyn std::io::Write + Send>> = Rc::new(RefCell::new(o));
        let stderr: Rc<RefCell<dyn std::io::Write + Send>> = Rc::new(RefCell::new(e));
        let w3 = w2.clone();
        let factory: Box<dyn Fn() -> SimIn> = Box::new(move || open_stdin(&w3, &delivery));
        jawk::go(cli, stdout, stderr, factory).map_err(|e| e.to_string())
    }));
    #[cfg(yift_jawk_verif)]
    jawk::verif::set_file_opener(None);
    #[cfg(yift_jawk_verif)]
    jawk::verif::set_dir_lister(None);
    for p in &paths {
        let _ = std::fs::remove_file(p);
    }
    let obs = observe(&w);
    let outcome = match res {
        Ok(Ok(())) => Outcome::Ok,
        Ok(Err(e)) => Outcome::Err(e),
        Err(payload) => {
            if let Some(a) = payload.downcast_ref::<SimAbort>() {
                Outcome::Abort(a.0.clone())
            } else {
                let (m, l) = LAST_PANIC
                    .with(|p| p.borrow_mut().take())
                    .unwrap_or_else(|| ("?".into(), "?".into()));
                Outcome::Panic(m, l)
            }
        }
    };
    RunOut { outcome, obs }
}
