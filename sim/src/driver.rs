//! Seeded batch runner: generates cases from VERIF_SEED, checks them on worker threads,
//! minimises and records the first violation, writes the evidence file.

use crate::case::*;
use crate::common::{Ctx, Tier};
use crate::known;
use crate::props::Property;
use crate::rng::{hash_bytes, mix, Rng};
use crate::shrink::shrink;
use serde_json::json;
use std::collections::{BTreeMap, HashSet};
use std::path::{Path, PathBuf};
use std::sync::atomic::{AtomicBool, AtomicU64, Ordering};
use std::sync::{Arc, Mutex};
use std::time::{Duration, Instant};

pub const DEFAULT_SEED: u64 = 20_260_929;

pub fn verif_root() -> PathBuf {
    if let Ok(r) = std::env::var("VERIF_ROOT") {
        return PathBuf::from(r);
    }
    // the binary lives in <root>/target/release/
    let exe = std::env::current_exe().unwrap_or_else(|_| PathBuf::from("/verif/target/release/jawk-sim"));
    exe.parent()
        .and_then(Path::parent)
        .and_then(Path::parent)
        .map_or_else(|| PathBuf::from("/verif"), Path::to_path_buf)
}

pub fn seed_from_env() -> u64 {
    std::env::var("VERIF_SEED")
        .ok()
        .and_then(|s| s.trim().parse::<i128>().ok())
        .map_or(DEFAULT_SEED, |v| v as u64)
}

pub fn workers_from_env() -> usize {
    std::env::var("VERIF_WORKERS")
        .ok()
        .and_then(|s| s.parse::<usize>().ok())
        .filter(|n| *n > 0)
        .unwrap_or_else(|| std::thread::available_parallelism().map_or(4, std::num::NonZero::get))
}

pub fn prop_tag(id: &str) -> u64 {
    hash_bytes(id.as_bytes())
}

pub fn case_seed(seed: u64, id: &str, index: u64) -> u64 {
    mix(&[seed, prop_tag(id), index])
}

/// The scenario with index `index`: the property's own generator plus what every property
/// shares. One scenario in sixteen gets a *history*: before it, the same thread runs the same
/// command line on part of the same input against a source and a sink that fail half-way.
/// Whatever that aborted run leaves behind (a static, a thread-local, a recycled table) must
/// not change the scenario's verdict.
pub fn generate_case(prop: &dyn Property, seed: u64, index: u64, tier: Tier) -> Case {
    let mut rng = Rng::new(case_seed(seed, prop.id(), index));
    let mut case = prop.generate(&mut rng, tier);
    if mix(&[seed, prop_tag(prop.id()), index, 0x5eed]) % 16 == 0 && !prop.process_level_only() {
        case.set("aborted_run_before", 1);
    }
    // the properties that compare separate runs (a record alone, a stream cut in two, the
    // first deliveries only): one scenario in six gives every run a thread of its own, so
    // that nothing one run leaves in a thread-local can make the next one agree with it
    if matches!(prop.id(), "C10" | "C11" | "C06" | "C17") && mix(&[seed, prop_tag(prop.id()), index, 0x150]) % 6 == 0 {
        case.set("isolated_runs", 1);
    }
    // file arguments (in-process checks): one scenario in five names them in a way a path
    // rarely is in a test - long, with multi-byte characters, or with a comma and a blank
    if matches!(prop.id(), "C05" | "C06" | "C10" | "C16" | "C17") {
        match mix(&[seed, prop_tag(prop.id()), index, 0x9a3e]) % 10 {
            0 => case.set("names", 1),
            1 => case.set("names", 2),
            2 => case.set("names", 3),
            _ => {}
        }
    }
    case
}

fn aborted_run_before(case: &Case, ctx: &mut Ctx) {
    let input = case.stream();
    if input.len() < 4 {
        return;
    }
    let mut spec = crate::common::case_spec(case, &input);
    spec.delivery.whole = false;
    spec.endless = None;
    spec.rfault = Some(crate::world::Fault {
        at: input.len() * 2 / 3,
        kind: crate::world::ErrKind::Other,
        sticky: true,
    });
    spec.out = crate::world::SinkPlan::default();
    spec.out.fail = Some(crate::world::Fault {
        at: 40,
        kind: crate::world::ErrKind::StorageFull,
        sticky: true,
    });
    spec.err = crate::world::SinkPlan::default();
    spec.max_events = 200_000;
    let saved = (ctx.jawk_panic.take(), ctx.harness_error.take());
    let _ = ctx.exec(spec);
    ctx.stats.probe("history: an aborted run of the same command line before the scenario");
    // a panic or abort of the prelude itself is some other scenario's business
    ctx.jawk_panic = saved.0;
    ctx.harness_error = saved.1;
}

/// check + the generic "no jawk panic" rule + harness error detection
pub fn full_check(prop: &dyn Property, case: &Case, ctx: &mut Ctx) -> Result<Option<Violation>, String> {
    if case.param("fresh_thread") == 1 {
        // a scenario about what accumulates within one run starts from a thread that has
        // never run jawk (thread-locals at their initial values), as a real process does
        let mut c2 = case.clone();
        c2.params.remove("fresh_thread");
        let r = std::thread::scope(|sc| {
            std::thread::Builder::new()
                .stack_size(8 << 20)
                .spawn_scoped(sc, || full_check(prop, &c2, ctx))
                .map(|h| h.join())
        });
        return match r {
            Ok(Ok(v)) => v,
            _ => Err("the fresh thread of a scenario could not be run".into()),
        };
    }
    if case.param("aborted_run_before") == 1 {
        aborted_run_before(case, ctx);
    }
    ctx.name_style = case.param("names").clamp(0, 3) as u8;
    ctx.isolate_runs = case.param("isolated_runs") == 1;
    if ctx.isolate_runs {
        ctx.stats.probe("every run of the scenario in a thread of its own");
    }
    let v = prop.check(case, ctx);
    ctx.isolate_runs = false;
    if let Some(h) = &ctx.harness_error {
        return Err(h.clone());
    }
    if v.is_some() {
        return Ok(v);
    }
    if let Some((m, l)) = &ctx.jawk_panic {
        return Ok(Some(Violation {
            rule: format!("{}.panic", prop.id()),
            detail: format!("jawk panicked: {m} at {l}"),
            reduced: None,
        }));
    }
    Ok(None)
}

pub fn digest_of(case: &Case, v: &Option<Violation>, trace: u64) -> u64 {
    let cj = serde_json::to_vec(case).unwrap_or_default();
    let r = v.as_ref().map_or(String::new(), |v| format!("{}|{}", v.rule, v.detail));
    mix(&[hash_bytes(&cj), hash_bytes(r.as_bytes()), trace])
}

pub fn worker_tmp(tag: &str) -> PathBuf {
    let base = if Path::new("/dev/shm").is_dir() {
        PathBuf::from("/dev/shm")
    } else {
        std::env::temp_dir()
    };
    // fixed length: the path shows up in diagnostics, and a sink that takes one byte per
    // call turns its length into a number of seam events (the selfcheck compares those)
    let d = base.join(format!("jawk-sim-{:07}-{:_<10}", std::process::id(), tag));
    let _ = std::fs::create_dir_all(&d);
    d
}

struct Found {
    index: u64,
    case: Case,
    violation: Violation,
}

#[derive(Default)]
struct Agg {
    stats: Stats,
    cases: u64,
    invalid: u64,
    nontrivial_cases: u64,
    traces: HashSet<u64>,
    nontrivial_traces: HashSet<u64>,
    samples: Vec<(u64, serde_json::Value)>,
    known_hits: BTreeMap<String, (u64, String)>,
    rechecks: u64,
    found: Vec<Found>,
    harness_errors: Vec<String>,
    families: BTreeMap<String, u64>,
    survey: BTreeMap<String, (u64, u64)>,
}

pub struct BatchResult {
    pub exit: i32,
}

#[allow(clippy::too_many_lines)]
pub fn run_batch(prop: Box<dyn Property>, tier: Tier) -> BatchResult {
    let prop: Arc<dyn Property> = Arc::from(prop);
    let id = prop.id();
    let seed = seed_from_env();
    let root = verif_root();
    let nworkers = workers_from_env();
    let budget = prop.budget(tier);
    let max_cases = std::env::var("VERIF_CASES")
        .ok()
        .and_then(|s| s.parse::<u64>().ok())
        .unwrap_or(budget.max_cases);
    let seconds = std::env::var("VERIF_SECONDS")
        .ok()
        .and_then(|s| s.parse::<u64>().ok())
        .unwrap_or(budget.seconds);
    println!(
        "jawk-sim: property={id} tier={} VERIF_SEED={seed} workers={nworkers} max_cases={max_cases} budget_s={seconds}",
        if tier == Tier::Quick { "quick" } else { "thorough" }
    );
    let known = known::load(&root);
    let started = Instant::now();
    let deadline = started + Duration::from_secs(seconds);
    let next = Arc::new(AtomicU64::new(0));
    let stop = Arc::new(AtomicBool::new(false));
    let agg = Arc::new(Mutex::new(Agg::default()));
    // watchdog slots: (index+1, start millis since `started`)
    let slots: Arc<Vec<(AtomicU64, AtomicU64)>> = Arc::new(
        (0..nworkers)
            .map(|_| (AtomicU64::new(0), AtomicU64::new(0)))
            .collect(),
    );
    let done = Arc::new(AtomicBool::new(false));
    {
        // wall-clock backstop for loops that touch no seam
        let slots = slots.clone();
        let done = done.clone();
        let prop = prop.clone();
        let root = root.clone();
        std::thread::spawn(move || loop {
            std::thread::sleep(Duration::from_millis(500));
            if done.load(Ordering::SeqCst) {
                return;
            }
            let now = started.elapsed().as_millis() as u64;
            for s in slots.iter() {
                let idx = s.0.load(Ordering::SeqCst);
                let st = s.1.load(Ordering::SeqCst);
                // (the thorough tier has scenarios that take tens of seconds on a loaded
                // machine: its limits are wider)
                let stall_ms: u64 = if tier == Tier::Quick { 45_000 } else { 150_000 };
                if idx > 0 && now.saturating_sub(st) > stall_ms {
                    let index = idx - 1;
                    // the scenario is re-run alone in a fresh process before anything is
                    // reported: a stall of this (possibly overloaded) process is not a hang
                    if !hangs_in_isolation(prop.id(), index, tier) {
                        s.1.store(started.elapsed().as_millis() as u64, Ordering::SeqCst);
                        continue;
                    }
                    let case = generate_case(prop.as_ref(), seed, index, tier);
                    let path = write_replay(&root, prop.id(), index, seed, &case, "hang", "a single scenario ran for more than 45 s (thorough tier: 150 s) inside the batch and again for more than 90 s (360 s) alone in a fresh process without returning");
                    println!(
                        "VIOLATION property={} replay={} rule={}.hang (wall-clock backstop; not minimised)",
                        prop.id(),
                        path.display(),
                        prop.id()
                    );
                    std::process::exit(1);
                }
            }
        });
    }
    let mut handles = Vec::new();
    for wi in 0..nworkers {
        let prop = prop.clone();
        let next = next.clone();
        let stop = stop.clone();
        let agg = agg.clone();
        let slots = slots.clone();
        let known = known.clone();
        let survey = std::env::var("VERIF_SURVEY").is_ok();
        let trace_cases = std::env::var("VERIF_TRACE").is_ok();
        let slot_file = std::env::var("JAWK_SIM_SLOTS")
            .ok()
            .and_then(|p| std::fs::OpenOptions::new().write(true).open(p).ok());
        // (the same stack as a main thread, so that a scenario behaves alike when the
        // supervisor re-runs it alone)
        let builder = std::thread::Builder::new().stack_size(8 << 20);
        handles.push(builder.spawn(move || {
            let tmp = worker_tmp(&format!("w{wi}"));
            let mut local = Agg::default();
            loop {
                if stop.load(Ordering::SeqCst) || Instant::now() >= deadline {
                    break;
                }
                let index = next.fetch_add(1, Ordering::SeqCst);
                if index >= max_cases {
                    break;
                }
                slots[wi].1.store(started.elapsed().as_millis() as u64, Ordering::SeqCst);
                slots[wi].0.store(index + 1, Ordering::SeqCst);
                if let Some(f) = &slot_file {
                    use std::os::unix::fs::FileExt;
                    let _ = f.write_at(&(index + 1).to_le_bytes(), (wi * 8) as u64);
                }
                let case = generate_case(prop.as_ref(), seed, index, tier);
                if trace_cases {
                    eprintln!("case {index} {:?}", case.argv());
                }
                let mut ctx = Ctx::new(tier, tmp.clone());
                let res = full_check(prop.as_ref(), &case, &mut ctx);
                slots[wi].0.store(0, Ordering::SeqCst);
                if let Some(f) = &slot_file {
                    use std::os::unix::fs::FileExt;
                    let _ = f.write_at(&0u64.to_le_bytes(), (wi * 8) as u64);
                }
                local.cases += 1;
                *local.families.entry(case.family.clone()).or_insert(0) += 1;
                local.stats.merge(&ctx.stats);
                if ctx.stats.invalid {
                    local.invalid += 1;
                }
                if ctx.subs.is_empty() {
                    local.traces.insert(ctx.stats.trace);
                    if ctx.stats.nontrivial {
                        local.nontrivial_traces.insert(ctx.stats.trace);
                    }
                } else {
                    for (t, nt) in &ctx.subs {
                        local.traces.insert(*t);
                        if *nt {
                            local.nontrivial_traces.insert(*t);
                        }
                    }
                }
                if ctx.stats.nontrivial {
                    local.nontrivial_cases += 1;
                }
                if local.samples.len() < 3 && ctx.stats.nontrivial && index % 7 == 3 {
                    local.samples.push((index, serde_json::to_value(&case).unwrap_or(json!(null))));
                }
                match res {
                    Err(h) => {
                        local.harness_errors.push(format!("case {index}: {h}"));
                        stop.store(true, Ordering::SeqCst);
                    }
                    Ok(v) => {
                        // determinism re-check of 1% of the seeds
                        if index % 100 == 7 {
                            let d1 = digest_of(&case, &v, ctx.stats.trace);
                            let case2 = generate_case(prop.as_ref(), seed, index, tier);
                            let mut ctx2 = Ctx::new(tier, tmp.clone());
                            let v2 = full_check(prop.as_ref(), &case2, &mut ctx2).unwrap_or(None);
                            let d2 = digest_of(&case2, &v2, ctx2.stats.trace);
                            local.rechecks += 1;
                            if d1 != d2 {
                                local.harness_errors.push(format!(
                                    "determinism: case {index} gave digest {d1:x} then {d2:x}"
                                ));
                                stop.store(true, Ordering::SeqCst);
                            }
                        }
                        if let Some(v) = v {
                            let failing = v.reduced.as_ref().map_or_else(|| case.clone(), |b| (**b).clone());
                            if let Some(k) = known::matches(&known, prop.id(), &v.rule, &failing, &v.detail) {
                                let e = local.known_hits.entry(k.id.clone()).or_insert((0, k.description.clone()));
                                e.0 += 1;
                            } else if survey {
                                let key = format!("{} | {}", v.rule, v.detail.chars().take(110).collect::<String>());
                                let e = local.survey.entry(key).or_insert((0, index));
                                e.0 += 1;
                            } else {
                                local.found.push(Found {
                                    index,
                                    case: failing,
                                    violation: v,
                                });
                                stop.store(true, Ordering::SeqCst);
                            }
                        }
                    }
                }
            }
            let _ = std::fs::remove_dir_all(&tmp);
            let mut g = agg.lock().unwrap();
            g.stats.merge(&local.stats);
            g.cases += local.cases;
            g.invalid += local.invalid;
            g.nontrivial_cases += local.nontrivial_cases;
            g.traces.extend(local.traces);
            g.nontrivial_traces.extend(local.nontrivial_traces);
            g.samples.extend(local.samples);
            g.rechecks += local.rechecks;
            g.found.extend(local.found);
            g.harness_errors.extend(local.harness_errors);
            for (k, v) in local.known_hits {
                let e = g.known_hits.entry(k).or_insert((0, v.1));
                e.0 += v.0;
            }
            for (k, v) in local.families {
                *g.families.entry(k).or_insert(0) += v;
            }
            for (k, v) in local.survey {
                let e = g.survey.entry(k).or_insert((0, v.1));
                e.0 += v.0;
                e.1 = e.1.min(v.1);
            }
        }).expect("cannot spawn a worker thread"));
    }
    for h in handles {
        let _ = h.join();
    }
    done.store(true, Ordering::SeqCst);
    let mut g = agg.lock().unwrap();
    let wall = started.elapsed().as_secs_f64();
    if !g.harness_errors.is_empty() {
        for h in &g.harness_errors {
            println!("HARNESS-ERROR property={id} {h}");
        }
        return BatchResult { exit: 2 };
    }
    for (k, (n, i)) in &g.survey {
        println!("SURVEY property={id} count={n} first_index={i} {k}");
    }
    for (k, (n, d)) in &g.known_hits {
        println!("KNOWN-FINDING: property={id} {k}: {d} (hit {n} times)");
    }
    let mut exit = 0;
    let mut violations = 0;
    g.found.sort_by_key(|f| f.index);
    let found: Vec<Found> = std::mem::take(&mut g.found);
    // the lowest-indexed violation that reproduces in a fresh process is the one reported; one
    // that does not reproduce (state carried over from an earlier scenario of the same worker)
    // is set aside, and only if none of the first few reproduces is that a harness error
    let mut unreproduced: Vec<String> = Vec::new();
    for f in found.into_iter().take(4) {
        violations = 1;
        let tmp = worker_tmp("shrink");
        let (min_case, detail, attempts) = shrink(
            prop.as_ref(),
            f.case.clone(),
            &f.violation.rule,
            f.violation.detail.clone(),
            Tier::Quick,
            &tmp,
        );
        let _ = std::fs::remove_dir_all(&tmp);
        let path = write_replay(&root, id, f.index, seed, &min_case, &f.violation.rule, &detail);
        // replay in a fresh process; it must fail the same way
        let confirmed = std::process::Command::new(std::env::current_exe().unwrap())
            .arg("replay")
            .arg(&path)
            .env("VERIF_ROOT", &root)
            .output()
            .map(|o| {
                o.status.code() == Some(1)
                    && String::from_utf8_lossy(&o.stdout).contains(&f.violation.rule)
            })
            .unwrap_or(false);
        if confirmed {
            println!(
                "VIOLATION property={id} replay={} rule={} case_index={} seed={seed} shrink_attempts={attempts}",
                path.display(),
                f.violation.rule,
                f.index
            );
            println!("  detail: {detail}");
            exit = 1;
            break;
        } else {
            // fall back to the unminimised case
            let path2 = write_replay(&root, id, f.index + 1_000_000_000, seed, &f.case, &f.violation.rule, &f.violation.detail);
            let confirmed2 = std::process::Command::new(std::env::current_exe().unwrap())
                .arg("replay")
                .arg(&path2)
                .env("VERIF_ROOT", &root)
                .output()
                .map(|o| o.status.code() == Some(1))
                .unwrap_or(false);
            if confirmed2 {
                println!(
                    "VIOLATION property={id} replay={} rule={} case_index={} seed={seed} (unminimised: the minimised case did not replay)",
                    path2.display(),
                    f.violation.rule,
                    f.index
                );
                println!("  detail: {}", f.violation.detail);
                exit = 1;
                break;
            } else {
                unreproduced.push(format!("{} at case {}", f.violation.rule, f.index));
            }
        }
    }
    if exit == 0 && !unreproduced.is_empty() {
        println!(
            "HARNESS-ERROR property={id} violation(s) that did not reproduce in a fresh process: {}",
            unreproduced.join(", ")
        );
        exit = 2;
    } else if !unreproduced.is_empty() {
        println!("  note: set aside as not reproducible in a fresh process: {}", unreproduced.join(", "));
    }
    // evidence
    g.samples.sort_by_key(|s| s.0);
    let samples: Vec<serde_json::Value> = g
        .samples
        .iter()
        .take(4)
        .map(|(i, c)| json!({"case_index": i, "case": c}))
        .collect();
    let samples = if samples.is_empty() {
        vec![json!({"note": "no non-trivial sample captured in this run"})]
    } else {
        samples
    };
    let per_hour = |n: u64| -> u64 {
        if wall > 0.0 {
            (n as f64 / wall * 3600.0) as u64
        } else {
            0
        }
    };
    let ev = json!({
        "property_id": id,
        "tier": if tier == Tier::Quick { "quick" } else { "thorough" },
        "seed": seed as i64,
        "level": prop.level(),
        "wall_s": (wall * 1000.0).round() / 1000.0,
        "violations": violations,
        "assumptions": prop.assumptions(),
        "coverage": {
            "evaluations": g.stats.runs,
            "distinct_nontrivial": g.nontrivial_traces.len(),
            "rule": prop.rule(),
            "samples": samples,
            "scenarios_generated": g.cases,
            "scenarios_nontrivial": g.nontrivial_cases,
            "scenarios_skipped_invalid": g.invalid,
            "scenario_families": g.families,
            "jawk_executions": g.stats.runs,
            "distinct_abstract_traces": g.traces.len(),
            "distinct_measure": "hash of (run-length-compressed sequence of seam event kinds and results per run, outcome class), folded over the runs of a scenario or fault point",
            "seam_events": g.stats.events,
            "bytes_through_stdin_seam": g.stats.bytes_in,
            "bytes_through_output_seams": g.stats.bytes_out,
            "simulated_time": "jawk has no clock or timer; progress is measured in seam events and bytes (see seam_events, bytes_*)",
            "faults_delivered": g.stats.faults,
            "probes": g.stats.probes,
            "scenarios_per_hour": per_hour(g.cases),
            "jawk_executions_per_hour": per_hour(g.stats.runs),
            "seeds_per_hour": per_hour(g.cases),
            "workers": nworkers,
            "determinism_rechecks": g.rechecks,
            "determinism_mismatches": 0,
            "known_findings_hit": g.known_hits.iter().map(|(k, v)| (k.clone(), v.0)).collect::<BTreeMap<_, _>>(),
            "function_table": if crate::funcs::scraped_live() { "scraped from /repo/src/functions at build time" } else { "committed snapshot (scrape failed)" },
            "components": {
                "real": ["jawk library (jawk::go, release build of the working tree)", "clap argument parsing", "regex, indexmap, cached, bigdecimal, chrono", "std::io::Bytes, BufReader, Write::write_all"],
                "stub": ["Read object behind the stdin factory (SimSource)", "Read objects behind the input-file opener, one per file argument (SimSource, hook H2; jawk's own BufReader on top is real)", "stdout and stderr Write objects (SimSink)", "listings of directory arguments (SimListing, hook H3: entry order and failures; the directories and placeholder files exist on /dev/shm because jawk's exists()/is_dir() tests are real)"],
                "process_level": if prop.id() == "C20" { "real binary + real std stdio; libc read/write/writev on fds 0-2 and read on the descriptors of planned file arguments (open/openat interposed) and opendir/readdir64 on planned directories scripted by the LD_PRELOAD shim; the null device and named pipes as file arguments; preset stdin/stdout/stderr objects (closed, directory, /dev/full, closed pipe, drained pipe)" } else if prop.id() == "C14" { "real binary with its standard input on a pipe fed by a producer thread (endless-process family only)" } else if prop.process_level() { "real binary whose read/write calls on fds 0-2 are logged, not altered, by the LD_PRELOAD shim (one scenario in 25)" } else { "not used by this check" }
            },
            "exhaustive": false
        }
    });
    let evdir = root.join("evidence");
    let _ = std::fs::create_dir_all(&evdir);
    let evpath = evdir.join(format!("{id}.json"));
    if let Err(e) = std::fs::write(&evpath, serde_json::to_string_pretty(&ev).unwrap() + "\n") {
        println!("HARNESS-ERROR property={id} cannot write evidence: {e}");
        return BatchResult { exit: 2 };
    }
    println!(
        "jawk-sim: {id} done: scenarios={} jawk_runs={} nontrivial_distinct={} wall={:.1}s exit={exit}",
        g.cases,
        g.stats.runs,
        g.nontrivial_traces.len(),
        wall
    );
    BatchResult { exit }
}

#[derive(serde::Serialize, serde::Deserialize)]
pub struct ReplayFile {
    pub property: String,
    pub rule: String,
    pub detail: String,
    pub verif_seed: u64,
    pub case_index: u64,
    pub case: Case,
}

pub fn write_replay(root: &Path, id: &str, index: u64, seed: u64, case: &Case, rule: &str, detail: &str) -> PathBuf {
    let dir = root.join("replays");
    let _ = std::fs::create_dir_all(&dir);
    let path = dir.join(format!("{id}-{seed}-{index}.json"));
    let rf = ReplayFile {
        property: id.to_string(),
        rule: rule.to_string(),
        detail: detail.to_string(),
        verif_seed: seed,
        case_index: index,
        case: case.clone(),
    };
    let _ = std::fs::write(&path, serde_json::to_string_pretty(&rf).unwrap() + "\n");
    path
}

/// Re-execute an explicit case. Exit 1 if it violates (printing the rule), 0 if not.
pub fn replay(path: &Path) -> i32 {
    let text = match std::fs::read_to_string(path) {
        Ok(t) => t,
        Err(e) => {
            println!("HARNESS-ERROR cannot read {}: {e}", path.display());
            return 2;
        }
    };
    let rf: ReplayFile = match serde_json::from_str(&text) {
        Ok(r) => r,
        Err(e) => {
            println!("HARNESS-ERROR cannot parse {}: {e}", path.display());
            return 2;
        }
    };
    let Some(prop) = crate::props::by_id(&rf.property) else {
        println!("HARNESS-ERROR unknown property {}", rf.property);
        return 2;
    };
    let tmp = worker_tmp("replay");
    let mut ctx = Ctx::new(Tier::Quick, tmp.clone());
    let res = full_check(prop.as_ref(), &rf.case, &mut ctx);
    let _ = std::fs::remove_dir_all(&tmp);
    match res {
        Err(h) => {
            println!("HARNESS-ERROR {h}");
            2
        }
        Ok(Some(v)) => {
            println!(
                "VIOLATION property={} replay={} rule={}",
                rf.property,
                path.display(),
                v.rule
            );
            println!("  detail: {}", v.detail);
            if v.rule != rf.rule {
                println!("  note: the file recorded rule {}", rf.rule);
            }
            1
        }
        Ok(None) => {
            println!("replay: property {} held on this case (recorded rule {})", rf.property, rf.rule);
            0
        }
    }
}


/// Supervisor: run the batch in a child process so that an abort of jawk (allocation
/// failure, stack overflow) becomes a reported, replayable violation instead of a dead
/// harness. The child records the case index each worker is executing in a slot file.
pub fn supervise(id: &str, tier: Tier) -> i32 {
    let exe = std::env::current_exe().unwrap();
    let tier_s = if tier == Tier::Quick { "quick" } else { "thorough" };
    let slots_path = worker_tmp("slots").join("slots");
    let nslots = 256usize;
    let _ = std::fs::write(&slots_path, vec![0u8; nslots * 8]);
    let status = std::process::Command::new(&exe)
        .arg("batch")
        .arg(id)
        .arg(tier_s)
        .env("JAWK_SIM_SLOTS", &slots_path)
        .status();
    let cleanup = || {
        if let Some(d) = slots_path.parent() {
            let _ = std::fs::remove_dir_all(d);
        }
    };
    let status = match status {
        Ok(s) => s,
        Err(e) => {
            println!("HARNESS-ERROR property={id} cannot spawn the batch process: {e}");
            cleanup();
            return 2;
        }
    };
    if let Some(code) = status.code() {
        cleanup();
        return code;
    }
    // killed by a signal: find the scenario that did it
    let raw = std::fs::read(&slots_path).unwrap_or_default();
    cleanup();
    let mut candidates: Vec<u64> = raw
        .chunks(8)
        .filter_map(|c| <[u8; 8]>::try_from(c).ok())
        .map(u64::from_le_bytes)
        .filter(|v| *v > 0)
        .map(|v| v - 1)
        .collect();
    candidates.sort_unstable();
    candidates.dedup();
    println!(
        "jawk-sim: the batch process of {id} was killed ({status}); re-running the {} in-flight scenarios in isolation",
        candidates.len()
    );
    let Some(prop) = crate::props::by_id(id) else {
        return 2;
    };
    let seed = seed_from_env();
    let root = verif_root();
    for index in candidates {
        let st = std::process::Command::new(&exe)
            .arg("one")
            .arg(id)
            .arg(index.to_string())
            .arg(tier_s)
            .stdout(std::process::Stdio::null())
            .stderr(std::process::Stdio::null())
            .status();
        if let Ok(st) = st {
            if st.code().is_none() {
                let case = generate_case(prop.as_ref(), seed, index, tier);
                let rule = format!("{id}.abort");
                let detail = format!("the process was killed ({st}) while executing this scenario: jawk aborted (allocation failure or stack overflow) instead of returning an error");
                let path = write_replay(&root, id, index, seed, &case, &rule, &detail);
                println!(
                    "VIOLATION property={id} replay={} rule={rule} case_index={index} seed={seed} (not minimised: the scenario kills its process)",
                    path.display()
                );
                println!("  detail: {detail}");
                let ev = json!({
                    "property_id": id, "tier": tier_s, "seed": seed as i64, "level": prop.level(),
                    "wall_s": 0.0, "violations": 1,
                    "coverage": {"evaluations": index + 1, "distinct_nontrivial": 0, "rule": prop.rule(),
                        "samples": [serde_json::to_value(&case).unwrap_or(json!(null))],
                        "explanation": "the batch process was killed by a signal; this file only records the aborting scenario"}
                });
                let _ = std::fs::create_dir_all(root.join("evidence"));
                let _ = std::fs::write(root.join("evidence").join(format!("{id}.json")), serde_json::to_string_pretty(&ev).unwrap() + "\n");
                return 1;
            }
        }
    }
    println!("HARNESS-ERROR property={id} the batch process was killed ({status}) but no in-flight scenario reproduces it in isolation");
    2
}

/// Wait for a child with a wall-clock limit; None = it had to be killed.
pub fn wait_limited(child: &mut std::process::Child, limit: Duration) -> Option<std::process::ExitStatus> {
    let start = Instant::now();
    loop {
        match child.try_wait() {
            Ok(Some(st)) => return Some(st),
            Ok(None) => {
                if start.elapsed() > limit {
                    let _ = child.kill();
                    let _ = child.wait();
                    return None;
                }
                std::thread::sleep(Duration::from_millis(20));
            }
            Err(_) => return None,
        }
    }
}

fn hangs_in_isolation(id: &str, index: u64, tier: Tier) -> bool {
    let Ok(exe) = std::env::current_exe() else {
        return true;
    };
    let _shared = crate::props::c20::SPAWN_LOCK.read().unwrap_or_else(std::sync::PoisonError::into_inner);
    let child = std::process::Command::new(exe)
        .arg("one")
        .arg(id)
        .arg(index.to_string())
        .arg(if tier == Tier::Quick { "quick" } else { "thorough" })
        .stdout(std::process::Stdio::null())
        .stderr(std::process::Stdio::null())
        .spawn();
    drop(_shared);
    match child {
        Ok(mut c) => wait_limited(&mut c, Duration::from_secs(if tier == Tier::Quick { 90 } else { 360 })).is_none(),
        Err(_) => true,
    }
}

/// Run one generated scenario (by index) in this process; used by the supervisor.
pub fn one(id: &str, index: u64, tier: Tier) -> i32 {
    let Some(prop) = crate::props::by_id(id) else {
        return 2;
    };
    let seed = seed_from_env();
    let case = generate_case(prop.as_ref(), seed, index, tier);
    let tmp = worker_tmp("one");
    let mut ctx = Ctx::new(tier, tmp.clone());
    let r = full_check(prop.as_ref(), &case, &mut ctx);
    let _ = std::fs::remove_dir_all(&tmp);
    match r {
        Err(_) => 2,
        Ok(Some(_)) => 1,
        Ok(None) => 0,
    }
}

/// Replay in a child so that an aborting case is reported rather than killing the caller.
pub fn replay_supervised(path: &Path) -> i32 {
    let exe = std::env::current_exe().unwrap();
    let spawned = std::process::Command::new(&exe).arg("replay-inner").arg(path).spawn();
    let st = match spawned {
        Ok(mut c) => match wait_limited(&mut c, Duration::from_secs(120)) {
            Some(st) => Ok(st),
            None => {
                let prop = std::fs::read_to_string(path)
                    .ok()
                    .and_then(|t| serde_json::from_str::<ReplayFile>(&t).ok())
                    .map_or_else(|| "?".to_string(), |r| r.property);
                println!("VIOLATION property={prop} replay={} rule={prop}.hang", path.display());
                println!("  detail: the process executing this case did not finish within 120 s");
                return 1;
            }
        },
        Err(e) => Err(e),
    };
    match st {
        Ok(s) => match s.code() {
            Some(c) => c,
            None => {
                let prop = std::fs::read_to_string(path)
                    .ok()
                    .and_then(|t| serde_json::from_str::<ReplayFile>(&t).ok())
                    .map_or_else(|| "?".to_string(), |r| r.property);
                println!(
                    "VIOLATION property={prop} replay={} rule={prop}.abort",
                    path.display()
                );
                println!("  detail: the process executing this case was killed ({s})");
                1
            }
        },
        Err(e) => {
            println!("HARNESS-ERROR cannot spawn replay: {e}");
            2
        }
    }
}
