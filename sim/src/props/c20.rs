//! C20 — the executable separates data from diagnostics and signals failure by exit code.
//! Process level: the real binary (real main, real std stdio) as a child, with the results
//! of read/write/writev on fds 0-2 scripted by the LD_PRELOAD shim, and preset hostile sinks.

use super::{Budget, Property, ShrinkCaps};
use crate::case::*;
use crate::common::*;
use crate::driver::verif_root;
use crate::gen::*;
use crate::rng::Rng;
use crate::run::*;
use crate::world::*;
use std::io::{Read, Write};
use std::os::unix::fs::OpenOptionsExt;
use std::path::PathBuf;
use std::process::{Command, Stdio};
use std::time::{Duration, Instant};

pub struct C20;

fn errno_name(k: ErrKind) -> &'static str {
    match k {
        ErrKind::StorageFull => "ENOSPC",
        ErrKind::BrokenPipe => "EPIPE",
        ErrKind::WouldBlock => "EAGAIN",
        ErrKind::PermissionDenied => "EACCES",
        ErrKind::ConnectionReset => "ECONNRESET",
        ErrKind::TimedOut => "ETIMEDOUT",
        _ => "EIO",
    }
}

#[derive(Debug, Default)]
struct Child {
    status: Option<i32>,
    timed_out: bool,
    out: Vec<u8>,
    err: Vec<u8>,
    /// (fd, op, asked, at, result, errno)
    log: Vec<(i32, char, usize, usize, i64, i32)>,
}

impl Child {
    fn fatal_on(&self, fd: i32) -> Option<usize> {
        self.log
            .iter()
            .find(|l| l.0 == fd && l.4 == -1 && l.5 != libc::EINTR)
            .map(|l| l.3)
    }
    fn eintrs(&self) -> usize {
        self.log.iter().filter(|l| l.4 == -1 && l.5 == libc::EINTR).count()
    }
    fn shorts(&self) -> usize {
        self.log.iter().filter(|l| l.4 >= 0 && (l.4 as usize) < l.2 && l.4 > 0).count()
    }
    fn describe(&self) -> String {
        format!(
            "status {:?}{} stdout {} stderr {}",
            self.status,
            if self.timed_out { " (timed out)" } else { "" },
            show(&self.out),
            show(&self.err)
        )
    }
}

fn plan_text(case: &Case, logpath: &std::path::Path, file_paths: &[String]) -> String {
    let mut s = String::new();
    s.push_str(&format!("log {}\n", logpath.display()));
    for (i, p) in file_paths.iter().enumerate() {
        let slot = 3 + i;
        s.push_str(&format!("file {slot} {p}\n"));
        if let Some(fp) = case.files.get(i) {
            if !fp.chunks.is_empty() {
                s.push_str(&format!("limits {slot} {}\n", fp.chunks.iter().map(ToString::to_string).collect::<Vec<_>>().join(",")));
            }
            if !fp.eintr.is_empty() {
                s.push_str(&format!("eintr {slot} {}\n", fp.eintr.iter().map(|(o, c)| format!("{o}:{c}")).collect::<Vec<_>>().join(" ")));
            }
            if let Some(f) = &fp.fault {
                s.push_str(&format!("fail {slot} {} {} {}\n", f.at, errno_name(f.kind), if f.sticky { "sticky" } else { "recovers" }));
            }
        }
    }
    let lim = |v: &[usize]| v.iter().map(ToString::to_string).collect::<Vec<_>>().join(",");
    let ei = |v: &[(usize, u32)]| v.iter().map(|(o, c)| format!("{o}:{c}")).collect::<Vec<_>>().join(" ");
    if !case.delivery.chunks.is_empty() {
        s.push_str(&format!("limits 0 {}\n", lim(&case.delivery.chunks)));
    }
    if !case.delivery.eintr.is_empty() {
        s.push_str(&format!("eintr 0 {}\n", ei(&case.delivery.eintr)));
    }
    if let Some(f) = &case.rfault {
        s.push_str(&format!(
            "fail 0 {} {} {}\n",
            f.at,
            errno_name(f.kind),
            if f.sticky { "sticky" } else { "recovers" }
        ));
    }
    for (fd, p) in [(1, &case.out), (2, &case.err)] {
        if !p.short.is_empty() {
            s.push_str(&format!("limits {fd} {}\n", lim(&p.short)));
        }
        if !p.eintr.is_empty() {
            s.push_str(&format!("eintr {fd} {}\n", ei(&p.eintr)));
        }
        if let Some(f) = &p.fail {
            s.push_str(&format!(
                "fail {fd} {} {} {}\n",
                f.at,
                errno_name(f.kind),
                if f.sticky { "sticky" } else { "recovers" }
            ));
        }
    }
    s
}

#[derive(Clone, Copy, PartialEq, Eq, Debug)]
enum Preset {
    Files,
    DevFull,
    ClosedPipe,
    DrainedPipe,
}

#[derive(Clone, Copy, PartialEq, Eq, Debug)]
enum StdinKind {
    File,
    /// fd 0 is closed before exec (std turns EBADF into end of input)
    Closed,
    /// fd 0 is a directory: read(2) fails with EISDIR
    Directory,
}

#[derive(Clone, Copy, PartialEq, Eq, Debug)]
enum StderrKind {
    File,
    DevFull,
    ClosedPipe,
}

#[derive(Clone, Debug)]
struct Cfg {
    with_shim: bool,
    preset: Preset,
    stdin: StdinKind,
    stderr: StderrKind,
    /// file arguments (their content), passed after `--`
    files: Vec<Vec<u8>>,
    /// log the calls on fds 0-2 without changing them
    watch: bool,
    /// name this directory (which holds the files) on the command line instead of the files
    arg_dir: Option<String>,
    /// further lines for the shim's plan (directory listing faults)
    plan_extra: String,
}

impl Cfg {
    fn plain() -> Cfg {
        Cfg {
            with_shim: false,
            preset: Preset::Files,
            stdin: StdinKind::File,
            stderr: StderrKind::File,
            files: Vec::new(),
            watch: false,
            arg_dir: None,
            plan_extra: String::new(),
        }
    }
}

/// fork() duplicates every descriptor of the harness process, and 16 workers spawn children
/// concurrently: a child forked by another worker while the read end of a "closed" pipe is
/// still open would keep that pipe alive until its exec. Spawns therefore hold this lock for
/// reading, and the creation of a closed pipe holds it for writing (no fork in flight).
pub static SPAWN_LOCK: std::sync::RwLock<()> = std::sync::RwLock::new(());

fn closed_pipe_writer() -> Result<std::fs::File, String> {
    let _exclusive = SPAWN_LOCK.write().unwrap_or_else(std::sync::PoisonError::into_inner);
    let mut fds = [0i32; 2];
    // SAFETY: plain pipe(2) call with a valid two-element array
    if unsafe { libc::pipe2(fds.as_mut_ptr(), libc::O_CLOEXEC) } != 0 {
        return Err("pipe failed".into());
    }
    // SAFETY: fds are freshly created and owned here
    unsafe {
        libc::close(fds[0]);
    }
    use std::os::fd::FromRawFd;
    // SAFETY: fds[1] is a valid, owned descriptor
    Ok(unsafe { std::fs::File::from_raw_fd(fds[1]) })
}

pub fn bin_path() -> PathBuf {
    verif_root().join("target/jawk-bin/release/jawk")
}

fn shim_path() -> PathBuf {
    verif_root().join("shim/iofault.so")
}

fn spawn(case: &Case, input: &[u8], with_shim: bool, preset: Preset, ctx: &mut Ctx) -> Result<Child, String> {
    let cfg = Cfg {
        with_shim,
        preset,
        ..Cfg::plain()
    };
    spawn_cfg(case, input, &cfg, &[], ctx)
}

/// `paths`: where the file arguments of `cfg.files` live (created here, removed afterwards).
fn spawn_cfg(case: &Case, input: &[u8], cfg: &Cfg, paths: &[String], ctx: &mut Ctx) -> Result<Child, String> {
    let with_shim = cfg.with_shim;
    let preset = cfg.preset;
    let dir = ctx.tmpdir.clone();
    let tag = ctx.fresh_path("p");
    let stem = tag.file_stem().unwrap().to_string_lossy().to_string();
    let inp = dir.join(format!("{stem}.in"));
    let outp = dir.join(format!("{stem}.out"));
    let errp = dir.join(format!("{stem}.err"));
    let logp = dir.join(format!("{stem}.log"));
    let planp = dir.join(format!("{stem}.plan"));
    std::fs::write(&inp, input).map_err(|e| e.to_string())?;
    let mut cmd = Command::new(bin_path());
    cmd.args(case.argv());
    if !cfg.files.is_empty() {
        cmd.arg("--");
        for (p, d) in paths.iter().zip(cfg.files.iter()) {
            std::fs::write(p, d).map_err(|e| e.to_string())?;
            if cfg.arg_dir.is_none() {
                cmd.arg(p);
            }
        }
        if let Some(d) = &cfg.arg_dir {
            cmd.arg(d);
        }
    }
    match cfg.stdin {
        StdinKind::File => {
            cmd.stdin(std::fs::File::open(&inp).map_err(|e| e.to_string())?);
        }
        StdinKind::Directory => {
            cmd.stdin(std::fs::File::open(&dir).map_err(|e| e.to_string())?);
        }
        StdinKind::Closed => {
            cmd.stdin(std::fs::File::open(&inp).map_err(|e| e.to_string())?);
            use std::os::unix::process::CommandExt;
            // SAFETY: close(2) is async-signal-safe; runs in the child between fork and exec
            unsafe {
                cmd.pre_exec(|| {
                    libc::close(0);
                    Ok(())
                });
            }
        }
    }
    match cfg.stderr {
        StderrKind::File => {
            cmd.stderr(std::fs::File::create(&errp).map_err(|e| e.to_string())?);
        }
        StderrKind::DevFull => {
            cmd.stderr(std::fs::OpenOptions::new().write(true).open("/dev/full").map_err(|e| e.to_string())?);
        }
        StderrKind::ClosedPipe => {
            cmd.stderr(closed_pipe_writer()?);
        }
    }
    cmd.env_remove("RUST_BACKTRACE");
    {
        // the environment is part of the world too: one variable whose value is not UTF-8
        use std::os::unix::ffi::OsStrExt;
        cmd.env("JAWK_SIM_NOT_UTF8", std::ffi::OsStr::from_bytes(b"\xff\xfe"));
    }
    let mut drain: Option<std::process::ChildStdout> = None;
    match preset {
        Preset::Files => {
            cmd.stdout(std::fs::File::create(&outp).map_err(|e| e.to_string())?);
        }
        Preset::DevFull => {
            cmd.stdout(
                std::fs::OpenOptions::new()
                    .write(true)
                    .open("/dev/full")
                    .map_err(|e| e.to_string())?,
            );
        }
        Preset::ClosedPipe => {
            cmd.stdout(closed_pipe_writer()?);
        }
        Preset::DrainedPipe => {
            cmd.stdout(Stdio::piped());
        }
    }
    if with_shim {
        let mut plan = plan_text(case, &logp, paths);
        if cfg.watch {
            plan.push_str("watch 0\nwatch 1\nwatch 2\n");
        }
        plan.push_str(&cfg.plan_extra);
        std::fs::write(&planp, plan).map_err(|e| e.to_string())?;
        cmd.env("LD_PRELOAD", shim_path());
        cmd.env("IOFAULT_PLAN", &planp);
    }
    let mut child = {
        let _shared = SPAWN_LOCK.read().unwrap_or_else(std::sync::PoisonError::into_inner);
        cmd.spawn().map_err(|e| format!("cannot spawn {}: {e}", bin_path().display()))?
    };
    if preset == Preset::DrainedPipe {
        drain = child.stdout.take();
    }
    let mut c = Child::default();
    let reader = drain.map(|mut d| {
        std::thread::spawn(move || {
            let mut v = Vec::new();
            let _ = d.read_to_end(&mut v);
            v
        })
    });
    let start = Instant::now();
    loop {
        match child.try_wait() {
            Ok(Some(st)) => {
                c.status = st.code();
                break;
            }
            Ok(None) => {
                if start.elapsed() > Duration::from_secs(20) {
                    let _ = child.kill();
                    let _ = child.wait();
                    c.timed_out = true;
                    break;
                }
                std::thread::sleep(Duration::from_micros(300));
            }
            Err(e) => return Err(e.to_string()),
        }
    }
    c.out = match reader {
        Some(h) => h.join().unwrap_or_default(),
        None => std::fs::read(&outp).unwrap_or_default(),
    };
    c.err = std::fs::read(&errp).unwrap_or_default();
    if with_shim {
        let text = std::fs::read_to_string(&logp).unwrap_or_default();
        for l in text.lines() {
            let p: Vec<&str> = l.split(' ').collect();
            if p.len() == 7 {
                c.log.push((
                    p[1].parse().unwrap_or(-1),
                    p[2].chars().next().unwrap_or('?'),
                    p[3].parse().unwrap_or(0),
                    p[4].parse().unwrap_or(0),
                    p[5].parse().unwrap_or(0),
                    p[6].parse().unwrap_or(0),
                ));
            }
        }
    }
    for p in [&inp, &outp, &errp, &logp, &planp] {
        let _ = std::fs::remove_file(p);
    }
    for p in paths {
        let _ = std::fs::remove_file(p);
    }
    ctx.stats.runs += 1;
    ctx.stats.events += c.log.len() as u64;
    ctx.stats.bytes_out += (c.out.len() + c.err.len()) as u64;
    ctx.stats.fault("process.read.interrupted+write.interrupted", c.eintrs() as u64);
    ctx.stats.fault("process.short-transfer", c.shorts() as u64);
    // abstract trace of the child: (fd, op, result class) run-length compressed + status class
    let mut t: Vec<u8> = Vec::new();
    let mut last = (0i32, ' ', 0u8);
    for l in &c.log {
        let cls = if l.4 == -1 {
            if l.5 == libc::EINTR {
                2
            } else {
                3
            }
        } else if l.4 == 0 {
            1
        } else {
            0
        };
        if (l.0, l.1, cls) != last {
            t.push(l.0 as u8);
            t.push(l.1 as u8);
            t.push(cls);
            last = (l.0, l.1, cls);
        }
    }
    t.push(match c.status {
        Some(0) => 0,
        Some(_) => 1,
        None => 2,
    });
    t.push(preset as u8);
    t.push(cfg.stdin as u8);
    t.push(cfg.stderr as u8);
    t.push(cfg.files.len() as u8);
    ctx.fold_trace(crate::rng::hash_bytes(&t));
    Ok(c)
}

const CLAP_INVALID: &[&[&str]] = &[
    &["--no-such-option"],
    &["--take=abc"],
    &["-o", "yaml"],
    &["--on-error=never"],
    &["--skip=-1"],
    &["--style=ugly"],
];

const GO_INVALID: &[&[&str]] = &[
    &["--select", "(zz_nope . 1)=x"],
    // an option value that is exactly the empty string; a --set name that is only a blank
    &["--group-by="],
    &["--filter="],
    &["--set", " =1"],
    &["--set", "  =\"x\""],
    // a text option under JSON output with exactly its default value
    &["--null-keyword=null"],
    &["--string-prefix="],
    // junk in front of a well-formed literal
    &["--filter=x true"],
    &["--filter=(size ."],
    &["--sort-by=.n=UP"],
    &["--set", "novalue"],
    &["--select", "(size . . .)=x"],
    &["--group-by=.g xx"],
    &["--split-by=((.arr)"],
    // (marker) text output with --headers and no selection at all
    &["--headers", "-o", "text"],
    // (marker) text output with one of its own options and a JSON-only option
    &["--null-keyword=NIL", "--style=pretty", "-o", "text"],
    // a duplicate --set with another definition in between
    &["--set", "dupa=1", "--set", "dupb=2", "--set", "dupa=3"],
    // the same name spelled with blanks around it
    &["--set", "rate =1", "--set", "rate=2"],
    &["--set", "@mac=.", "--set", " @mac=.id"],
    // a direction glued to a selection that ends by itself
    &["--sort-by=(size .arr)DESC"],
    &["--sort-by=\"k\"asc"],
    &["--sort-by=5asc"],
    // an index step no machine integer holds
    &["--select", "#18446744073709551616=v"],
    &["--filter=.arr#99999999999999999999"],
    &["--sort-by=.arr#18446744073709551616"],
    // quote characters a shell would have eaten; a string step that never ends
    &["--filter=(> .n 0)'"],
    &["--select", "'(size .arr)=x"],
    &["--select", ".s.\"first=x"],
    &["--group-by=.\"o"],
];

impl Property for C20 {
    fn id(&self) -> &'static str {
        "C20"
    }
    fn level(&self) -> &'static str {
        "exploration"
    }
    fn process_level(&self) -> bool {
        true
    }
    fn rule(&self) -> &'static str {
        "A scenario = the real jawk executable (release build of the working tree, guard off) run as child processes on a generated clean or noisy stream (occasionally > 16 KiB of output) x one of the four --on-error policies x a pipeline of any class x row separators with and without a newline x {valid configuration, configuration rejected by go, configuration rejected by clap}, with stdin/stdout/stderr on regular files in /dev/shm. Families: 'valid'/'invalid' (fault-free child vs in-process jawk::go for the same argv and input: fd 1 must carry exactly go's stdout sink, fd 2 exactly go's stderr sink plus, on failure, a message; exit status 0 iff go returned Ok); 'read-fault' / 'write-fault' / 'err-fault' (LD_PRELOAD shim fails read(0) / write(1) / write(2) at a seeded byte offset with EIO, ENOSPC, EPIPE, EAGAIN, EACCES..., sticky or recovering, after seeded EINTR and short transfers); 'transparent' (EINTR/short only); 'preset' (/dev/full, a pipe whose read end is closed, a pipe drained by the harness); 'file-read-fault' (1..3 real file arguments, optionally behind a directory argument, read(2) on one of them failing at a seeded offset: the shim interposes open/openat); 'dir-list-fault' (1..3 real files inside a directory argument, flat or one level down; the shim interposes opendir/readdir64/closedir and fails opendir or the k-th readdir64 of one directory: non-zero status, a message, stdout a prefix of the fault-free child's); 'special-file' (the null device among the file arguments, a named pipe that a writer fills and closes: the run must be the run on a regular file with the same bytes); 'stdin-preset' (fd 0 closed or a directory); 'stderr-preset' (/dev/full or closed pipe as standard error); 'missing-file'; 'info' (--version/--help); every child has a non-UTF-8 environment variable; invalid configurations also run with an unwritable standard error; noise is no failure (same configuration on the garbage-free stream). evaluations = child processes + in-process reference runs; non-trivial = a planned fault was delivered according to the shim's own event log, or diagnostics/rows had to be routed (noisy stream under stderr/stdout policy), or a hostile preset sink received output; distinct = distinct abstract traces (shim event kinds per fd, exit class, preset)."
    }
    fn assumptions(&self) -> Vec<String> {
        vec![
            "regular files never short-read or short-write, so without the shim the kernel adds no nondeterminism; the drained-pipe preset uses a real pipe and a reader thread and is judged on content only".into(),
            "the shim interposes libc read/write/writev for fds 0-2 only; file arguments (fds >= 3) are real and fault-free".into(),
            "child wall-clock limit 20 s is a harness bound only".into(),
            "in-process reference uses the same source tree built with the verification guard on".into(),
        ]
    }
    fn shrink_caps(&self) -> ShrinkCaps {
        ShrinkCaps {
            drop_pieces: true,
            simplify_records: true,
            shrink_raw: false,
            drop_opts: true,
        }
    }
    fn budget(&self, tier: Tier) -> Budget {
        match tier {
            Tier::Quick => Budget {
                seconds: 60,
                max_cases: 20_000,
            },
            Tier::Thorough => Budget {
                seconds: 600,
                max_cases: 200_000,
            },
        }
    }

    fn generate(&self, rng: &mut Rng, tier: Tier) -> Case {
        let family = match rng.below(30) {
            29 => "special-file",
            27..=28 => "dir-list-fault",
            0..=4 => "valid",
            5..=6 => "invalid",
            7..=9 => "read-fault",
            10..=14 => "write-fault",
            15 => "err-fault",
            16..=17 => "transparent",
            18..=19 => "preset",
            20..=22 => "file-read-fault",
            23 => "stdin-preset",
            24 => "stderr-preset",
            25 => "missing-file",
            _ => "info",
        };
        let mut case = Case::new("C20", family);
        let big = rng.chance(1, 8);
        let noisy = rng.chance(1, 2);
        let w = StreamWish {
            min_records: if big { 100 } else { 0 },
            max_records: if big {
                300
            } else if tier == Tier::Thorough {
                30
            } else {
                10
            },
            noise_eighths: if noisy { 3 } else { 0 },
            allow_touch: true,
            spell_level: 1,
            allow_big: true,
            schema_only: false,
        };
        case.pieces = gen_stream(rng, &w);
        if rng.chance(1, 10) && !case.pieces.is_empty() {
            // one very large record (a row or cell beyond any 8 KiB buffer) among small ones
            let at = rng.below(case.pieces.len() + 1);
            let big = match rng.below(3) {
                0 => format!("\"{}\"", "x".repeat(rng.range(8200, 20000))),
                1 => format!("{{\"id\":7,\"s\":\"{}\",\"arr\":[1]}}", "y".repeat(rng.range(8200, 12000))),
                _ => format!("[{}0]", "12345,".repeat(rng.range(1400, 3000))),
            };
            case.pieces.insert(at, Piece::gap(vec![b'\n']));
            case.pieces.insert(at, Piece::rec(big.into_bytes(), 9999));
            case.pieces.insert(at, Piece::gap(vec![b'\n']));
        }
        if noisy && rng.chance(1, 6) {
            // (marked below: under the panic policy one piece of noise may be a broken word)
            case.set("word_noise", 1);
        }
        if noisy && rng.chance(1, 6) {
            // the producer died inside a value
            while case.pieces.last().map_or(false, |p| p.kind == Kind::Gap) {
                case.pieces.pop();
            }
            case.pieces.push(gen_truncated_tail(rng));
        }
        let mut wish = PipeWish::any();
        wish.allow_corpus = false;
        let mut pipe = gen_pipe(rng, &wish);
        if rng.chance(1, 3) {
            pipe.opts.retain(|o| !o[0].starts_with("--row-seperator"));
            pipe.opts.push(vec![format!("--row-seperator={}", rng.pick(&[",", ";", " | ", ""]))]);
        }
        if family == "valid" && pipe.style == Style::Json && rng.chance(1, 8) {
            // an expression that looks at the environment (the child's holds a non-UTF-8 value)
            pipe.opts.push(vec!["--select".into(), "(env \"HOME\")=home".into()]);
        }
        case.opts = pipe.opts;
        let pol = *rng.pick(&[Policy::Ignore, Policy::Panic, Policy::Stderr, Policy::Stderr, Policy::Stdout]);
        case.opts.push(policy_opt(pol));
        if pol == Policy::Panic && case.param("word_noise") == 1 {
            if let Some(p) = case.pieces.iter_mut().find(|p| p.kind == Kind::Garbage) {
                let t: &[u8] = *rng.pick(BROKEN_WORDS);
                let mut g = vec![b'\n'];
                g.extend_from_slice(t);
                g.push(b'\n');
                p.bytes.0 = g;
            }
        }
        let len = case.stream().len();
        match family {
            "invalid" => {
                // sometimes the message has nowhere to go either
                case.set("stderr", *rng.pick(&[0i64, 0, 1, 2]));
                let bad: &[&str] = if rng.chance(1, 2) {
                    CLAP_INVALID[rng.below(CLAP_INVALID.len())]
                } else {
                    GO_INVALID[rng.below(GO_INVALID.len())]
                };
                if bad[0] == "--null-keyword=NIL" {
                    case.opts.retain(|o| {
                        !(matches!(o[0].as_str(), "-o" | "--utf8-strings")
                            || o[0].starts_with("--output-style")
                            || o[0].starts_with("--style")
                            || o[0].starts_with("--null-keyword")
                            || o[0].starts_with("--group-by")
                            || o[0] == "--merge")
                    });
                }
                if bad[0] == "--null-keyword=null" || bad[0] == "--string-prefix=" {
                    // invalid only where the output is JSON
                    case.opts.retain(|o| {
                        !(o[0] == "-o" || o[0].starts_with("--output-style") || o[0].starts_with("--null-keyword") || o[0].starts_with("--string-prefix") || o[0] == "--headers")
                    });
                }
                if bad[0] == "--headers" {
                    case.opts.retain(|o| {
                        !(matches!(o[0].as_str(), "--select" | "--choose" | "-c" | "-o" | "--headers" | "--utf8-strings")
                            || o[0].starts_with("--output-style")
                            || o[0].starts_with("--style")
                            || o[0].starts_with("--sort-by=/"))
                    });
                }
                if bad[0].starts_with("--group-by") {
                    case.opts.retain(|o| !o[0].starts_with("--group-by") && o[0] != "--merge");
                }
                if bad[0].starts_with("--split-by") || bad[0].starts_with("--filter") {
                    let key = bad[0].split('=').next().unwrap().to_string();
                    case.opts.retain(|o| !o[0].starts_with(&key));
                }
                case.opts.push(bad.iter().map(ToString::to_string).collect());
            }
            "read-fault" => {
                case.delivery = gen_delivery(rng, len);
                case.delivery.whole = false;
                case.rfault = Some(Fault {
                    at: rng.below(len + 1),
                    kind: *rng.pick(&ErrKind::READ_KINDS),
                    sticky: rng.chance(1, 2),
                });
            }
            "write-fault" => {
                case.out = gen_sink_garnish(rng, 200);
                case.set("wfrac", rng.below(1000) as i64);
                case.out.fail = Some(Fault {
                    at: 0,
                    kind: *rng.pick(&ErrKind::WRITE_KINDS),
                    sticky: rng.chance(1, 2),
                });
            }
            "err-fault" => {
                case.set("wfrac", rng.below(1000) as i64);
                case.err.fail = Some(Fault {
                    at: 0,
                    kind: *rng.pick(&ErrKind::WRITE_KINDS),
                    sticky: rng.chance(1, 2),
                });
            }
            "transparent" => {
                case.delivery = gen_delivery(rng, len);
                case.delivery.whole = false;
                if case.delivery.chunks.is_empty() {
                    case.delivery.chunks = vec![1, 7, 3];
                }
                if case.delivery.eintr.is_empty() {
                    case.delivery.eintr.push((rng.below(len + 1), 2));
                }
                case.out = gen_sink_garnish(rng, 300);
                if case.out.short.is_empty() {
                    case.out.short = vec![3, 1];
                }
                case.err = gen_sink_garnish(rng, 100);
            }
            "preset" => {
                case.set("preset", rng.range(1, 3) as i64);
            }
            "file-read-fault" => {
                // the input arrives as 1..3 file arguments; read(2) on one of them fails
                let inside = rng.chance(1, 3);
                super::c17::place_cuts(rng, &mut case, inside);
                let datas = split_files(&case);
                case.files = datas.iter().map(|d| gen_file_plan(rng, d.len())).collect();
                let j = rng.below(datas.len());
                if rng.chance(5, 6) {
                    case.files[j].eintr.retain(|_| false);
                    case.files[j].fault = Some(Fault {
                        at: rng.below(datas[j].len() + 1),
                        kind: *rng.pick(&ErrKind::READ_KINDS),
                        sticky: rng.chance(1, 2),
                    });
                }
                case.opts.retain(|o| !o.iter().any(|t| t.contains("&file-name")));
                if datas.len() == 1 && rng.chance(1, 2) {
                    // the file is the only entry of a directory argument
                    case.set("as_dir", 1);
                }
            }
            "dir-list-fault" => {
                // the input arrives as 1..3 files inside a directory argument (flat, or the
                // later files one level down); listing a directory fails
                let inside = rng.chance(1, 4);
                super::c17::place_cuts(rng, &mut case, inside);
                let n = split_files(&case).len();
                case.files = (0..n).map(|_| FilePlan::default()).collect();
                case.set("layout", if n >= 2 && rng.chance(1, 2) { 3 } else { 1 });
                let which = rng.below(2);
                // positions count what readdir returns, "." and ".." included
                let at = rng.below(n + 4);
                let kind = *rng.pick(&[ErrKind::Other, ErrKind::PermissionDenied, ErrKind::TimedOut, ErrKind::ConnectionReset]);
                let mut plans = vec![DirPlan::default(), DirPlan::default()];
                if rng.chance(1, 5) {
                    plans[which].open_fails = Some(kind);
                } else {
                    plans[which].entry_fault = Some(Fault { at, kind, sticky: true });
                }
                case.dirs = plans;
                case.opts.retain(|o| !o.iter().any(|t| t.contains("&file-name")));
            }
            "special-file" => {
                // 0 = /dev/null alone, 1 = a real file then /dev/null, 2 = /dev/null then a real
                // file, 3 = a named pipe that a writer fills with the stream and closes
                case.set("special", rng.below(4) as i64);
                case.opts.retain(|o| !o.iter().any(|t| t.contains('&')));
            }
            "stdin-preset" => {
                case.set("stdin", rng.range(1, 2) as i64);
            }
            "info" => {
                case.set("flag", rng.below(4) as i64);
                case.set("with_opts", i64::from(rng.chance(1, 2)));
            }
            "missing-file" => {
                // 0 = the only argument, 1 = after a real file, 2 = before a real file
                // (after a real file only when nothing can stop the run before it gets there)
                let stops_early = has_opt(&case.opts, "--take") || policy_of(&case.opts) == Policy::Panic;
                case.set("where", if stops_early { *rng.pick(&[0i64, 2]) } else { rng.below(3) as i64 });
            }
            "stderr-preset" => {
                case.opts.retain(|o| !o[0].starts_with("--on-error"));
                case.opts.push(policy_opt(Policy::Stderr));
                case.set("stderr", rng.range(1, 2) as i64);
                if !case.pieces.iter().any(|p| p.kind == Kind::Garbage) {
                    let at = rng.below(case.pieces.len() + 1);
                    case.pieces.insert(at, Piece::garbage(gen_garbage_region(rng)));
                }
            }
            _ => {}
        }
        case
    }

    #[allow(clippy::too_many_lines)]
    fn check(&self, case: &Case, ctx: &mut Ctx) -> Option<Violation> {
        if !bin_path().exists() || !shim_path().exists() {
            ctx.harness_error = Some(format!(
                "process level needs {} and {} (run ./check setup)",
                bin_path().display(),
                shim_path().display()
            ));
            return None;
        }
        match case.family.as_str() {
            "file-read-fault" => return check_file_fault(case, ctx),
            "dir-list-fault" => return check_dir_fault(case, ctx),
            "special-file" => return check_special_file(case, ctx),
            "stdin-preset" => return check_stdin_preset(case, ctx),
            "missing-file" => return check_missing_file(case, ctx),
            "info" => return check_info(case, ctx),
            "stderr-preset" => return check_stderr_preset(case, ctx),
            _ => {}
        }
        let input = case.stream();
        let class = classify(&case.opts);
        let pol = policy_of(&case.opts);
        // in-process reference of the same argv and input
        let g = ctx.exec(ref_spec(case, &input));
        if matches!(g.outcome, Outcome::Panic(..) | Outcome::Abort(_)) {
            ctx.stats.invalid = true;
            ctx.jawk_panic = None;
            return None;
        }
        // ... and under `panic` malformed input is a failure: without --take nothing can end
        // the run before the first piece of noise
        if pol == Policy::Panic
            && g.outcome.is_ok()
            && case.pieces.iter().any(|p| p.kind == Kind::Garbage)
            && !has_opt(&case.opts, "--take")
            && matches!(case.family.as_str(), "valid" | "read-fault" | "write-fault" | "transparent" | "preset" | "err-fault")
        {
            return viol(
                "C20.exit-fail",
                "--on-error=panic and malformed input, yet go returns Ok (the run must fail at the first malformed byte)".to_string(),
            );
        }
        // noise is no failure: under a policy other than `panic`, a run whose clean stream
        // succeeds succeeds on the noisy stream too (the reference is the same configuration
        // on the garbage-free stream, so the verdict does not rest on go agreeing with itself)
        if g.outcome.is_err() && pol != Policy::Panic && case.pieces.iter().any(|p| p.kind == Kind::Garbage) {
            let mut clean = Vec::new();
            for p in &case.pieces {
                if p.kind == Kind::Garbage {
                    clean.push(b'\n');
                } else {
                    clean.extend_from_slice(&p.bytes.0);
                }
            }
            let gc = ctx.exec(ref_spec(case, &clean));
            if gc.outcome.is_ok() {
                return viol(
                    "C20.exit-ok",
                    format!(
                        "under {pol:?} malformed input must not fail the run, yet go returns {} on the noisy stream and Ok on the garbage-free one",
                        g.outcome.describe()
                    ),
                );
            }
        }
        macro_rules! child {
            ($shim:expr, $preset:expr) => {
                match spawn(case, &input, $shim, $preset, ctx) {
                    Ok(c) => c,
                    Err(e) => {
                        ctx.harness_error = Some(e);
                        return None;
                    }
                }
            };
        }
        // fault-free child
        let f = child!(false, Preset::Files);
        if f.timed_out {
            return viol("C20.hang", format!("fault-free child did not finish within 20 s: {}", f.describe()));
        }
        let noisy_routed = case.pieces.iter().any(|p| p.kind == Kind::Garbage) && matches!(pol, Policy::Stderr | Policy::Stdout);
        if case.family == "invalid" && case.param("stderr") > 0 && !g.outcome.is_ok() {
            // an invalid configuration and a standard error that cannot take the message:
            // whatever becomes of the message, the status must not say success
            let mut c2 = Cfg::plain();
            c2.stderr = if case.param("stderr") == 1 { StderrKind::DevFull } else { StderrKind::ClosedPipe };
            let r = match spawn_cfg(case, &input, &c2, &[], ctx) {
                Ok(c) => c,
                Err(e) => {
                    ctx.harness_error = Some(e);
                    return None;
                }
            };
            ctx.stats.fault("config.invalid-with-unwritable-stderr", 1);
            if r.timed_out {
                return viol("C20.hang", format!("invalid configuration with {:?} stderr: {}", c2.stderr, r.describe()));
            }
            if r.status == Some(0) {
                return viol(
                    "C20.exit-fail",
                    format!("an invalid configuration exits with status 0 when standard error is {:?}", c2.stderr),
                );
            }
            if !r.out.is_empty() {
                return viol("C20.exit-fail", format!("an invalid configuration wrote to stdout: {}", r.describe()));
            }
        }
        match &g.outcome {
            Outcome::Clap(_) => {
                ctx.stats.fault("config.rejected-by-clap", 1);
                ctx.stats.nontrivial = true;
                if f.status == Some(0) || f.status.is_none() {
                    return viol("C20.exit-fail", format!("argv rejected by clap but {}", f.describe()));
                }
                if !f.out.is_empty() {
                    return viol("C20.exit-fail", format!("usage error wrote to stdout: {}", f.describe()));
                }
                if f.err.is_empty() {
                    return viol("C20.exit-fail", format!("usage error without a message on stderr: {}", f.describe()));
                }
                return None;
            }
            Outcome::Ok if case.family == "invalid" => {
                // the configuration is invalid by construction
                return viol(
                    "C20.exit-fail",
                    format!("an invalid configuration ({:?}) is accepted: go returns Ok and the executable: {}", case.opts.last(), f.describe()),
                );
            }
            Outcome::Ok => {
                if noisy_routed {
                    ctx.stats.nontrivial = true;
                    ctx.stats.fault("diagnostics-routed", 1);
                }
                if f.status != Some(0) {
                    return viol("C20.exit-ok", format!("go succeeds in-process but the executable: {}", f.describe()));
                }
                if f.out != g.obs.stdout {
                    let rule = if pol == Policy::Stderr && f.out.windows(6).any(|w| w == b"error:") && !g.obs.stdout.windows(6).any(|w| w == b"error:") {
                        "C20.diag-on-stderr"
                    } else {
                        "C20.rows-on-stdout"
                    };
                    return viol(
                        rule,
                        format!(
                            "standard output of the executable differs from go's stdout sink (first difference at byte {}): {} vs {}",
                            common_prefix(&f.out, &g.obs.stdout),
                            show(&f.out),
                            show(&g.obs.stdout)
                        ),
                    );
                }
                if f.err != g.obs.stderr {
                    return viol(
                        "C20.diag-on-stderr",
                        format!(
                            "standard error of the executable differs from go's stderr sink: {} vs {}",
                            show(&f.err),
                            show(&g.obs.stderr)
                        ),
                    );
                }
            }
            Outcome::Err(msg) => {
                ctx.stats.fault("go-returns-error", 1);
                ctx.stats.nontrivial = true;
                if f.status == Some(0) || f.status.is_none() {
                    return viol("C20.exit-fail", format!("go fails in-process ({msg}) but the executable: {}", f.describe()));
                }
                if f.out != g.obs.stdout {
                    return viol(
                        "C20.rows-on-stdout",
                        format!("failing run: standard output differs from go's stdout sink: {} vs {}", show(&f.out), show(&g.obs.stdout)),
                    );
                }
                if !f.err.starts_with(&g.obs.stderr) || f.err.len() <= g.obs.stderr.len() {
                    return viol(
                        "C20.exit-fail",
                        format!("failing run: standard error must carry go's diagnostics plus a message: {} vs sink {}", show(&f.err), show(&g.obs.stderr)),
                    );
                }
            }
            _ => {}
        }
        // faulted children
        let mut faulted = case.clone();
        match case.family.as_str() {
            "write-fault" => {
                if f.out.is_empty() {
                    ctx.stats.probe("write-fault scenario without output");
                    return None;
                }
                if let Some(ff) = faulted.out.fail.as_mut() {
                    if ff.at == 0 {
                        ff.at = (case.param("wfrac") as usize * f.out.len()) / 1000;
                    }
                }
            }
            "err-fault" => {
                if f.err.is_empty() {
                    ctx.stats.probe("err-fault scenario without diagnostics");
                    return None;
                }
                if let Some(ff) = faulted.err.fail.as_mut() {
                    if ff.at == 0 {
                        ff.at = (case.param("wfrac") as usize * f.err.len()) / 1000;
                    }
                }
            }
            "read-fault" | "transparent" => {}
            "preset" => {
                let preset = match case.param("preset") {
                    1 => Preset::DevFull,
                    2 => Preset::ClosedPipe,
                    _ => Preset::DrainedPipe,
                };
                let r = child!(false, preset);
                ctx.stats.fault(&format!("preset.{preset:?}"), 1);
                if r.timed_out {
                    return viol("C20.hang", format!("child with {preset:?} stdout did not finish: {}", r.describe()));
                }
                match preset {
                    Preset::DrainedPipe => {
                        ctx.stats.nontrivial = true;
                        if r.status != f.status || r.out != f.out || r.err != f.err {
                            return viol(
                                "C20.transparent",
                                format!("stdout on a pipe changes the behaviour: {} vs on a file {}", r.describe(), f.describe()),
                            );
                        }
                    }
                    _ => {
                        if !f.out.is_empty() {
                            ctx.stats.nontrivial = true;
                            if r.status == Some(0) {
                                return viol(
                                    "C20.no-silent-loss",
                                    format!(
                                        "stdout is {preset:?} and {} bytes of output were lost, but the exit status is 0 (stderr {})",
                                        f.out.len(),
                                        show(&r.err)
                                    ),
                                );
                            }
                            if r.status.is_none() {
                                return viol("C20.exit-fail", format!("killed by a signal with {preset:?} stdout"));
                            }
                            if r.err.is_empty() {
                                return viol("C20.exit-fail", format!("stdout is {preset:?}: non-zero exit but no message on stderr"));
                            }
                        } else if r.status != f.status {
                            return viol(
                                "C20.exit-ok",
                                format!("no output was produced, yet the exit status with {preset:?} stdout is {:?} instead of {:?}", r.status, f.status),
                            );
                        }
                    }
                }
                return None;
            }
            _ => return None,
        }
        let r = match spawn(&faulted, &input, true, Preset::Files, ctx) {
            Ok(c) => c,
            Err(e) => {
                ctx.harness_error = Some(e);
                return None;
            }
        };
        if r.timed_out {
            return viol("C20.hang", format!("child under faults did not finish within 20 s: {}", r.describe()));
        }
        if r.status == Some(97) {
            return viol("C20.stops", format!("more than 64 calls on a descriptor after a sticky failure: {}", r.describe()));
        }
        let rd = r.fatal_on(0);
        let wd = r.fatal_on(1);
        let ed = r.fatal_on(2);
        if let Some(at) = rd {
            ctx.stats.fault("process.read.failed", 1);
            if at == 0 {
                ctx.stats.probe("read fault at offset 0");
            }
        }
        if wd.is_some() {
            ctx.stats.fault("process.write.failed", 1);
            if has_opt(&case.opts, "--row-seperator") {
                ctx.stats.probe("write fault with a non-default row separator");
            }
        }
        if ed.is_some() {
            ctx.stats.fault("process.write.failed.stderr", 1);
        }
        if rd.is_some() || wd.is_some() || ed.is_some() || (case.family == "transparent" && r.eintrs() + r.shorts() > 0) {
            ctx.stats.nontrivial = true;
        }
        if r.status.is_none() {
            return viol("C20.exit-fail", format!("child killed by a signal under faults: {}", r.describe()));
        }
        if r.status == Some(0) && r.out != f.out {
            return viol(
                "C20.no-silent-loss",
                format!(
                    "exit status 0 but standard output is not the fault-free output ({} of {} bytes arrived; read fault {:?}, write fault {:?}): {} vs {}",
                    r.out.len(),
                    f.out.len(),
                    rd,
                    wd,
                    show(&r.out),
                    show(&f.out)
                ),
            );
        }
        if rd.is_none() && wd.is_none() && ed.is_none() {
            if r.status != f.status || r.out != f.out || r.err != f.err {
                return viol(
                    "C20.transparent",
                    format!("only EINTR/short transfers were delivered but the run differs: {} vs {}", r.describe(), f.describe()),
                );
            }
            return None;
        }
        if rd.is_some() || wd.is_some() {
            if r.status == Some(0) {
                return viol(
                    "C20.exit-fail",
                    format!("read fault {rd:?} / write fault {wd:?} delivered but exit status 0: {}", r.describe()),
                );
            }
            if r.err.is_empty() {
                return viol("C20.exit-fail", format!("failure without a message on stderr: {}", r.describe()));
            }
        }
        if (wd.is_some() || class != Class::Buffering) && !is_prefix(&r.out, &f.out) {
            return viol(
                "C20.rows-on-stdout",
                format!(
                    "under faults (read {rd:?}, write {wd:?}, stderr {ed:?}) standard output is not a prefix of the fault-free output: {} vs {}",
                    show(&r.out),
                    show(&f.out)
                ),
            );
        }
        None
    }
}

macro_rules! try_spawn {
    ($ctx:expr, $e:expr) => {
        match $e {
            Ok(c) => c,
            Err(e) => {
                $ctx.harness_error = Some(e);
                return None;
            }
        }
    };
}

/// read(2) on a file argument fails (shim slot 3+j): the executable must report it.
fn check_file_fault(case: &Case, ctx: &mut Ctx) -> Option<Violation> {
    let datas = split_files(case);
    if case.files.len() != datas.len() {
        ctx.stats.invalid = true;
        return None;
    }
    let class = classify(&case.opts);
    let as_dir = case.param("as_dir") == 1 && datas.len() == 1;
    let dir = if as_dir { ctx.fresh_dir() } else { None };
    let paths = match &dir {
        Some(d) => vec![format!("{d}/only.json")],
        None => ctx.fresh_paths(datas.len()),
    };
    let res = check_file_fault_in(case, ctx, &datas, &paths, dir.as_deref(), class);
    if let Some(d) = &dir {
        let _ = std::fs::remove_dir_all(d);
    }
    res
}

fn check_file_fault_in(case: &Case, ctx: &mut Ctx, datas: &[Vec<u8>], paths: &[String], dir: Option<&str>, class: Class) -> Option<Violation> {
    let mut cfg = Cfg::plain();
    cfg.files = datas.to_vec();
    cfg.arg_dir = dir.map(str::to_string);
    if dir.is_some() {
        ctx.stats.probe("file argument reached through a directory argument");
    }
    let f = try_spawn!(ctx, spawn_cfg(case, b"", &cfg, paths, ctx));
    if f.timed_out {
        return viol("C20.hang", format!("fault-free child on {} files did not finish: {}", datas.len(), f.describe()));
    }
    if f.status.is_none() {
        return viol("C20.exit-fail", format!("fault-free child on files was killed by a signal: {}", f.describe()));
    }
    cfg.with_shim = true;
    let r = try_spawn!(ctx, spawn_cfg(case, b"", &cfg, paths, ctx));
    if r.timed_out {
        return viol("C20.hang", format!("child under file read faults did not finish within 20 s: {}", r.describe()));
    }
    if r.status == Some(97) {
        return viol("C20.stops", format!("more than 64 reads on a file after a sticky failure: {}", r.describe()));
    }
    let delivered: Vec<i32> = (0..datas.len() as i32).filter(|j| r.fatal_on(3 + j).is_some()).collect();
    let opened = r.log.iter().filter(|l| l.1 == 'o').count();
    ctx.stats.probe_n("file arguments opened under the shim", opened as u64);
    if delivered.is_empty() {
        if r.eintrs() + r.shorts() > 0 {
            ctx.stats.nontrivial = true;
            ctx.stats.fault("process.file.short-or-eintr-only", 1);
        }
        if r.status != f.status || r.out != f.out || r.err != f.err {
            return viol(
                "C20.transparent",
                format!("no read failure was delivered on any file (only EINTR/short reads) but the run differs: {} vs {}", r.describe(), f.describe()),
            );
        }
        return None;
    }
    ctx.stats.nontrivial = true;
    ctx.stats.fault("process.file.read.failed", 1);
    if delivered[0] > 0 {
        ctx.stats.probe("read fault in a later file argument");
    }
    if r.status.is_none() {
        return viol("C20.exit-fail", format!("child killed by a signal under a file read fault: {}", r.describe()));
    }
    if r.status == Some(0) {
        return viol(
            "C20.exit-fail",
            format!("reading file argument {} failed but the exit status is 0: {}", delivered[0], r.describe()),
        );
    }
    if r.err.len() <= f.err.len() && r.err.is_empty() {
        return viol("C20.exit-fail", format!("file read failure without a message on stderr: {}", r.describe()));
    }
    if class != Class::Buffering && policy_of(&case.opts) != Policy::Stdout && !is_prefix(&r.out, &f.out) {
        return viol(
            "C20.rows-on-stdout",
            format!("under a file read fault standard output is not a prefix of the fault-free output: {} vs {}", show(&r.out), show(&f.out)),
        );
    }
    None
}

/// Listing a directory argument fails (opendir, or readdir at some entry): the executable
/// must report it. The listing order is the file system's and the same in both children.
fn check_dir_fault(case: &Case, ctx: &mut Ctx) -> Option<Violation> {
    let datas = split_files(case);
    if case.files.len() != datas.len() {
        ctx.stats.invalid = true;
        return None;
    }
    let root = ctx.fresh_dir()?;
    let lay = lay_out(&root, datas.len(), case.param("layout"), ctx.name_style);
    let res = check_dir_fault_in(case, ctx, &datas, &lay);
    let _ = std::fs::remove_dir_all(&root);
    res
}

fn check_dir_fault_in(case: &Case, ctx: &mut Ctx, datas: &[Vec<u8>], lay: &DirLayout) -> Option<Violation> {
    let class = classify(&case.opts);
    let mut cfg = Cfg::plain();
    cfg.files = datas.to_vec();
    cfg.arg_dir = Some(lay.args[0].clone());
    let f = try_spawn!(ctx, spawn_cfg(case, b"", &cfg, &lay.paths, ctx));
    if f.timed_out {
        return viol("C20.hang", format!("fault-free child on a directory argument did not finish: {}", f.describe()));
    }
    if f.status.is_none() {
        return viol("C20.exit-fail", format!("fault-free child on a directory argument was killed by a signal: {}", f.describe()));
    }
    cfg.with_shim = true;
    let mut planned = false;
    for (j, (path, _)) in lay.dirs.iter().enumerate() {
        let Some(p) = case.dirs.get(j) else { continue };
        if let Some(k) = p.open_fails {
            cfg.plan_extra.push_str(&format!("dirfail {path} -1 {}\n", errno_name(k)));
            planned = true;
        } else if let Some(fl) = &p.entry_fault {
            cfg.plan_extra.push_str(&format!("dirfail {path} {} {}\n", fl.at, errno_name(fl.kind)));
            planned = true;
        }
    }
    if !planned {
        ctx.stats.invalid = true;
        return None;
    }
    let r = try_spawn!(ctx, spawn_cfg(case, b"", &cfg, &lay.paths, ctx));
    if r.timed_out {
        return viol("C20.hang", format!("child under a failing directory listing did not finish within 20 s: {}", r.describe()));
    }
    if r.status == Some(97) {
        return viol("C20.stops", format!("more than 64 calls on a directory listing after its failure: {}", r.describe()));
    }
    let delivered = r.log.iter().find(|l| l.0 >= 20 && l.4 == -1).map(|l| (l.0 - 20, l.1, l.3));
    let Some((j, op, at)) = delivered else {
        ctx.stats.probe("planned listing fault not delivered (position beyond the listing, or jawk stopped first)");
        if r.status != f.status || r.out != f.out || r.err != f.err {
            return viol(
                "C20.transparent",
                format!("no listing failure was delivered but the run differs: {} vs {}", r.describe(), f.describe()),
            );
        }
        return None;
    };
    ctx.stats.nontrivial = true;
    ctx.stats.fault(if op == 'D' { "process.dir.open.failed" } else { "process.dir.entry.failed" }, 1);
    if j > 0 {
        ctx.stats.probe("listing fault in a nested directory");
    }
    if !r.out.is_empty() {
        ctx.stats.probe("listing fault after rows reached standard output");
    }
    let what = if op == 'D' {
        format!("opendir of directory {j} failed")
    } else {
        format!("readdir of directory {j} failed at entry {at}")
    };
    if r.status.is_none() {
        return viol("C20.exit-fail", format!("child killed by a signal when {what}: {}", r.describe()));
    }
    if r.status == Some(0) {
        return viol("C20.exit-fail", format!("{what} but the exit status is 0: {}", r.describe()));
    }
    if r.err.is_empty() {
        return viol("C20.exit-fail", format!("{what}: no message on stderr: {}", r.describe()));
    }
    if class != Class::Buffering && policy_of(&case.opts) != Policy::Stdout && !is_prefix(&r.out, &f.out) {
        return viol(
            "C20.rows-on-stdout",
            format!("{what}: standard output is not a prefix of the fault-free output: {} vs {}", show(&r.out), show(&f.out)),
        );
    }
    None
}

/// fd 0 closed (std reports end of input) or a directory (read fails with EISDIR).
/// `--take 0`: the limit is reached before the first byte. A run that never touches its
/// input has met no input failure, so the rules that demand a failure do not apply.
fn takes_nothing(case: &Case) -> bool {
    case.opts.iter().any(|o| o[0] == "--take=0" || (o[0] == "--take" && o.get(1).map_or(false, |v| v == "0")))
}

fn check_stdin_preset(case: &Case, ctx: &mut Ctx) -> Option<Violation> {
    let kind = if case.param("stdin") == 1 { StdinKind::Closed } else { StdinKind::Directory };
    let cfg = Cfg::plain();
    // what the same configuration does on an empty input
    let e = try_spawn!(ctx, spawn_cfg(case, b"", &cfg, &[], ctx));
    if e.timed_out || e.status.is_none() {
        return viol("C20.hang", format!("child on empty input: {}", e.describe()));
    }
    let mut c2 = Cfg::plain();
    c2.stdin = kind;
    let r = try_spawn!(ctx, spawn_cfg(case, &case.stream(), &c2, &[], ctx));
    ctx.stats.fault(&format!("preset.stdin.{kind:?}"), 1);
    ctx.stats.nontrivial = true;
    if r.timed_out {
        return viol("C20.hang", format!("child with {kind:?} stdin did not finish: {}", r.describe()));
    }
    if r.status.is_none() {
        return viol("C20.exit-fail", format!("child with {kind:?} stdin was killed by a signal: {}", r.describe()));
    }
    if e.status != Some(0) {
        // the configuration itself is rejected: the same must happen whatever stdin is
        if r.status == Some(0) {
            return viol("C20.exit-fail", format!("configuration fails on empty input but succeeds with {kind:?} stdin: {}", r.describe()));
        }
        return None;
    }
    match kind {
        StdinKind::Closed => {
            if r.status != e.status || r.out != e.out || r.err != e.err {
                return viol(
                    "C20.exit-ok",
                    format!("closed stdin reads as end of input, yet the run differs from the run on an empty input: {} vs {}", r.describe(), e.describe()),
                );
            }
        }
        _ => {
            if takes_nothing(case) && r.status == Some(0) && r.out == e.out && r.err == e.err {
                ctx.stats.probe("--take 0: the unreadable stdin was never needed");
                return None;
            }
            if r.status == Some(0) {
                return viol("C20.exit-fail", format!("stdin is a directory (read fails) but the exit status is 0: {}", r.describe()));
            }
            if r.err.is_empty() {
                return viol("C20.exit-fail", format!("stdin is a directory: failure without a message on stderr: {}", r.describe()));
            }
            if !is_prefix(&r.out, &e.out) {
                return viol(
                    "C20.rows-on-stdout",
                    format!("stdin is a directory: standard output is not a prefix of the output for an empty input: {} vs {}", show(&r.out), show(&e.out)),
                );
            }
        }
    }
    None
}

/// --on-error=stderr with diagnostics to write, and a standard error that cannot take them.
fn check_stderr_preset(case: &Case, ctx: &mut Ctx) -> Option<Violation> {
    let kind = if case.param("stderr") == 1 { StderrKind::DevFull } else { StderrKind::ClosedPipe };
    let input = case.stream();
    let class = classify(&case.opts);
    let f = try_spawn!(ctx, spawn_cfg(case, &input, &Cfg::plain(), &[], ctx));
    if f.timed_out || f.status.is_none() {
        return viol("C20.hang", format!("fault-free child: {}", f.describe()));
    }
    let mut c2 = Cfg::plain();
    c2.stderr = kind;
    let r = try_spawn!(ctx, spawn_cfg(case, &input, &c2, &[], ctx));
    ctx.stats.fault(&format!("preset.stderr.{kind:?}"), 1);
    if r.timed_out {
        return viol("C20.hang", format!("child with {kind:?} stderr did not finish: {}", r.describe()));
    }
    if r.status.is_none() {
        return viol("C20.exit-fail", format!("child with {kind:?} stderr was killed by a signal: {}", r.describe()));
    }
    if f.err.is_empty() {
        // nothing had to be written to stderr: the run must be unaffected
        if r.status != f.status || r.out != f.out {
            return viol("C20.exit-ok", format!("nothing is written to stderr, yet a {kind:?} stderr changes the run: {} vs {}", r.describe(), f.describe()));
        }
        return None;
    }
    ctx.stats.nontrivial = true;
    // Whether a diagnostic that cannot be written fails the run is not settled by the
    // property (the pinned tree fails it). What is settled: status 0 means the rows are all
    // there, and no way of failing may take the form of a success.
    if f.status == Some(0) && r.status == Some(0) {
        ctx.stats.probe("diagnostics lost to a failing stderr, run reported success");
        if r.out != f.out {
            return viol(
                "C20.no-silent-loss",
                format!(
                    "{} bytes of diagnostics could not be written to a {kind:?} stderr, the exit status is 0, but standard output is not the fault-free output: {} vs {}",
                    f.err.len(),
                    show(&r.out),
                    show(&f.out)
                ),
            );
        }
        return None;
    }
    if class != Class::Buffering && !is_prefix(&r.out, &f.out) {
        return viol(
            "C20.rows-on-stdout",
            format!("stderr is {kind:?}: standard output is not a prefix of the fault-free output: {} vs {}", show(&r.out), show(&f.out)),
        );
    }
    None
}

/// A file argument that does not exist: input failed, so the status is non-zero and there
/// is a message on standard error (how the failure is worded, or whether it is a panic, is
/// not judged).
fn check_missing_file(case: &Case, ctx: &mut Ctx) -> Option<Violation> {
    let input = case.stream();
    let paths = ctx.fresh_paths(2);
    let real = paths[0].clone();
    let missing = format!("{}.does-not-exist", paths[1]);
    let stops_early = has_opt(&case.opts, "--take") || policy_of(&case.opts) == Policy::Panic;
    // (--take 0 needs no input at all: a run that never looks at its arguments has not failed)
    if (case.param("where") == 1 && stops_early) || takes_nothing(case) {
        ctx.stats.invalid = true;
        return None;
    }
    let order: Vec<String> = match case.param("where") {
        0 => vec![missing.clone()],
        1 => vec![real.clone(), missing.clone()],
        _ => vec![missing.clone(), real.clone()],
    };
    // reference: the real file alone (decides whether the configuration itself is valid)
    let mut cfg = Cfg::plain();
    cfg.files = vec![input.clone()];
    let f = try_spawn!(ctx, spawn_cfg(case, b"", &cfg, &[real.clone()], ctx));
    if f.timed_out || f.status.is_none() {
        return viol("C20.hang", format!("child on one real file: {}", f.describe()));
    }
    // the run with the missing argument: spawn by hand (the real file must exist, the other not)
    if std::fs::write(&real, &input).is_err() {
        ctx.harness_error = Some("cannot write input file".into());
        return None;
    }
    let mut c2 = case.clone();
    c2.opts.push(std::iter::once("--".to_string()).chain(order.iter().cloned()).collect());
    let r = try_spawn!(ctx, spawn_cfg(&c2, b"", &Cfg::plain(), &[], ctx));
    let _ = std::fs::remove_file(&real);
    ctx.stats.nontrivial = true;
    ctx.stats.fault("input.missing-file-argument", 1);
    if r.timed_out {
        return viol("C20.hang", format!("child with a missing file argument did not finish: {}", r.describe()));
    }
    if r.status == Some(0) {
        return viol(
            "C20.exit-fail",
            format!("a file argument does not exist but the exit status is 0: {}", r.describe()),
        );
    }
    if r.err.is_empty() {
        return viol("C20.exit-fail", format!("missing file argument: failure without a message on stderr: {}", r.describe()));
    }
    if f.status == Some(0) && classify(&case.opts) != Class::Buffering && policy_of(&case.opts) != Policy::Stdout && !is_prefix(&r.out, &f.out) {
        return viol(
            "C20.rows-on-stdout",
            format!("missing file argument: standard output is not a prefix of the output for the existing file: {} vs {}", show(&r.out), show(&f.out)),
        );
    }
    None
}

/// File arguments that exist and are neither regular files nor directories - the null
/// device, a named pipe: inputs like any other. The run must be the run on a regular file
/// with the same bytes.
fn check_special_file(case: &Case, ctx: &mut Ctx) -> Option<Violation> {
    let input = case.stream();
    let paths = ctx.fresh_paths(2);
    let real = paths[0].clone();
    // reference: the stream (or nothing) in one regular file
    let which = case.param("special");
    let ref_bytes: Vec<u8> = if which == 0 { Vec::new() } else { input.clone() };
    let mut cfg = Cfg::plain();
    cfg.files = vec![ref_bytes];
    let f = try_spawn!(ctx, spawn_cfg(case, b"", &cfg, &[real.clone()], ctx));
    if f.timed_out || f.status.is_none() {
        return viol("C20.hang", format!("child on one regular file: {}", f.describe()));
    }
    let fifo = format!("{}.fifo", paths[1]);
    let args: Vec<String> = match which {
        0 => vec!["/dev/null".into()],
        1 => vec![real.clone(), "/dev/null".into()],
        2 => vec!["/dev/null".into(), real.clone()],
        _ => vec![fifo.clone()],
    };
    let mut writer = None;
    if which == 3 {
        let Ok(c) = std::ffi::CString::new(fifo.clone()) else { return None };
        // SAFETY: mkfifo with a valid NUL-terminated path
        if unsafe { libc::mkfifo(c.as_ptr(), 0o600) } != 0 {
            ctx.harness_error = Some("cannot create a named pipe".into());
            return None;
        }
        let (p, data) = (fifo.clone(), input.clone());
        writer = Some(std::thread::spawn(move || {
            // (opening blocks until jawk opens the other end; a jawk that never does is
            // released by the harness opening it for reading below)
            if let Ok(mut w) = std::fs::OpenOptions::new().write(true).open(&p) {
                let _ = w.write_all(&data);
            }
        }));
    } else if std::fs::write(&real, &input).is_err() {
        ctx.harness_error = Some("cannot write input file".into());
        return None;
    }
    let mut c2 = case.clone();
    c2.opts.push(std::iter::once("--".to_string()).chain(args.iter().cloned()).collect());
    let r = try_spawn!(ctx, spawn_cfg(&c2, b"", &Cfg::plain(), &[], ctx));
    let _ = std::fs::remove_file(&real);
    if let Some(h) = writer {
        // release a writer that is still waiting for a reader
        let _ = std::fs::OpenOptions::new().read(true).custom_flags(libc::O_NONBLOCK).open(&fifo);
        let _ = h.join();
        let _ = std::fs::remove_file(&fifo);
    }
    ctx.stats.nontrivial = true;
    ctx.stats.fault(if which == 3 { "input.named-pipe-argument" } else { "input.null-device-argument" }, 1);
    if r.timed_out {
        return viol("C20.hang", format!("child with a special file argument did not finish: {}", r.describe()));
    }
    let names: Vec<String> = vec![real, fifo, "/dev/null".into()];
    if r.status != f.status || strip_paths(&r.out, &names) != strip_paths(&f.out, &names) {
        return viol(
            if f.status == Some(0) { "C20.exit-ok" } else { "C20.exit-fail" },
            format!(
                "file arguments {:?} (special {which}): the run differs from the run on a regular file with the same bytes: {} vs {}",
                args,
                r.describe(),
                f.describe()
            ),
        );
    }
    None
}

/// What the real executable did at its three standard descriptors for this argv and input,
/// observed (not altered) by the shim: (exit status, stdout, stderr, number of read calls on
/// fd 0, number of write calls on fd 1). Used by C18's process family.
pub fn run_watched(case: &Case, input: &[u8], ctx: &mut Ctx) -> Result<(Option<i32>, Vec<u8>, Vec<u8>, usize, usize), String> {
    if !bin_path().exists() || !shim_path().exists() {
        return Err(format!("process level needs {} and {} (run ./check setup)", bin_path().display(), shim_path().display()));
    }
    let mut cfg = Cfg::plain();
    cfg.with_shim = true;
    cfg.watch = true;
    let mut bare = case.clone();
    bare.delivery = Delivery::default();
    bare.rfault = None;
    bare.out = SinkPlan::default();
    bare.err = SinkPlan::default();
    bare.files.clear();
    let c = spawn_cfg(&bare, input, &cfg, &[], ctx)?;
    if c.timed_out {
        return Err("watched child timed out".into());
    }
    let reads = c.log.iter().filter(|l| l.0 == 0 && l.1 == 'r').count();
    let writes = c.log.iter().filter(|l| l.0 == 1 && l.1 == 'w').count();
    Ok((c.status, c.out, c.err, reads, writes))
}

/// --version / --help: a run that only prints information succeeds (status 0, the text on
/// standard output, nothing on standard error), whatever else is on the command line.
fn check_info(case: &Case, ctx: &mut Ctx) -> Option<Violation> {
    let flag = ["--version", "-V", "--help", "-h"][(case.param("flag").max(0) as usize) % 4];
    let mut c = case.clone();
    if case.param("with_opts") != 1 {
        c.opts.clear();
    }
    c.opts.push(vec![flag.to_string()]);
    let r = try_spawn!(ctx, spawn_cfg(&c, &case.stream(), &Cfg::plain(), &[], ctx));
    ctx.stats.nontrivial = true;
    ctx.stats.fault("info-flag", 1);
    if r.timed_out {
        return viol("C20.hang", format!("{flag}: child did not finish: {}", r.describe()));
    }
    if r.status != Some(0) {
        return viol("C20.exit-ok", format!("{flag} only prints information, yet: {}", r.describe()));
    }
    if r.out.is_empty() || !r.err.is_empty() {
        return viol("C20.exit-ok", format!("{flag}: the information belongs on standard output and nothing on standard error: {}", r.describe()));
    }
    None
}
