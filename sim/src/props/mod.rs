use crate::case::{Case, Violation};
use crate::common::{Ctx, Tier};
use crate::rng::Rng;

pub mod c05;
pub mod c06;
pub mod c10;
pub mod c11;
pub mod c14;
pub mod c16;
pub mod c17;
pub mod c18;
pub mod c20;

#[derive(Clone, Copy, Debug)]
pub struct ShrinkCaps {
    /// whole pieces may be dropped
    pub drop_pieces: bool,
    /// a record may be replaced by a simpler literal (no harness identity attached)
    pub simplify_records: bool,
    /// raw pieces may lose byte ranges
    pub shrink_raw: bool,
    /// option groups may be dropped
    pub drop_opts: bool,
}

pub struct Budget {
    /// wall-clock seconds after which no new case is started
    pub seconds: u64,
    /// hard cap on generated cases
    pub max_cases: u64,
}

pub trait Property: Sync + Send {
    fn id(&self) -> &'static str;
    fn level(&self) -> &'static str;
    /// how cases are generated and what makes one non-trivial (for the evidence file)
    fn rule(&self) -> &'static str;
    fn assumptions(&self) -> Vec<String>;
    fn generate(&self, rng: &mut Rng, tier: Tier) -> Case;
    fn check(&self, case: &Case, ctx: &mut Ctx) -> Option<Violation>;
    fn shrink_caps(&self) -> ShrinkCaps;
    fn budget(&self, tier: Tier) -> Budget;
    /// needs the real binary and the shim (process level)
    fn process_level(&self) -> bool {
        false
    }
    /// every run of this property is a child process (in-process history is meaningless)
    fn process_level_only(&self) -> bool {
        false
    }
}

pub fn by_id(id: &str) -> Option<Box<dyn Property>> {
    match id {
        "C05" => Some(Box::new(c05::C05)),
        "C06" => Some(Box::new(c06::C06)),
        "C10" => Some(Box::new(c10::C10)),
        "C11" => Some(Box::new(c11::C11)),
        "C14" => Some(Box::new(c14::C14)),
        "C16" => Some(Box::new(c16::C16)),
        "C17" => Some(Box::new(c17::C17)),
        "C18" => Some(Box::new(c18::C18)),
        "C20" => Some(Box::new(c20::C20)),
        _ => None,
    }
}

pub const ALL: &[&str] = &["C05", "C06", "C10", "C11", "C14", "C16", "C17", "C18", "C20"];
