//! C05 — no input data and no parsable expression can make jawk panic or hang.
//! The stream half: corrupted / truncated / hostile byte streams arriving through the stdin
//! seam. The expression half: as far as the generated corpus reaches (stated in evidence).

use super::{Budget, Property, ShrinkCaps};
use crate::case::*;
use crate::common::*;
use crate::funcs;
use crate::gen::*;
use crate::rng::Rng;
use crate::run::*;
use crate::world::*;

pub struct C05;

const ALPHABET: &[u8] = b"{}[]\",:-+.eE01 9\\ntfu\n/ax";

const ARG_POOL: &[&str] = &[
    ".", ".s", ".n", ".arr", ".obj", ".g", ".h", ".id", ".missing", "0", "1", "2", "3", "-1", "1.5", "1e30",
    "-1e30", "100", "\"\"", "\"é\"", "\"aé😀b\"", "\"abc\"", "\"a\"", "\"%Q\"", "\"%Y-%m-%d\"", "\"1.5\"",
    "\"-0\"", "\"1e3\"", "\"[\"", "\"(\"", "\"(a)|(b)\"", "\"(x)?a\"", "\"[0-9\"", "\"a*\"", "\"^$\"", "null", "true", "false", "[]", "{}", "[1, \"é\", null]",
    "{\"a\": 1}", "[1, 2, 3]", "[\"é\", \"😀\"]", "[[1], [2]]", "\"日本語テキスト\"", "18446744073709551615",
    "-9223372036854775808", "0.1", "\"2024-01-01T00:00:00Z\"", "\"Z\"", "\"+25:00\"",
    // values only arithmetic can make: infinities and NaN out of finite operands
    "1e308", "(* 1e308 10)", "(- 0 (* 1e308 10))", "(- (* 1e308 10) (* 1e308 10))", "(* 0 (* 1e308 10))",
    "[1, (* 0 (* 1e308 10)), 2]", "9223372036854775807", "-1.0", "5e-324",
    // long arrays crowded around the edges of the integer range (orderings, sorts, sums)
    "[18446744073709551615, 18446744073709551616, 18446744073709551614, 18446744073709551616, 18446744073709551613, 18446744073709551615, 18446744073709551616, 18446744073709551612, 18446744073709551614, 18446744073709551616, 18446744073709551611, 18446744073709551615, 18446744073709551610, 18446744073709551616, 18446744073709551613, 18446744073709551609, 18446744073709551616, 18446744073709551615, 18446744073709551608, 18446744073709551614, 18446744073709551616, 18446744073709551607, 18446744073709551612, 18446744073709551616, 18446744073709551615, 18446744073709551606]",
    "[-9223372036854775808, -9223372036854775809, -9223372036854775807, -9223372036854775809, -9223372036854775806, -9223372036854775808, -9223372036854775809, -9223372036854775805, -9223372036854775807, -9223372036854775809, -9223372036854775804, -9223372036854775808, -9223372036854775803, -9223372036854775809, -9223372036854775806, -9223372036854775802, -9223372036854775809, -9223372036854775808, -9223372036854775801, -9223372036854775807, -9223372036854775809, -9223372036854775800, -9223372036854775805, -9223372036854775809]",
    "[3, 1, 2, 1e308, -1e308, 0.5, 9007199254740993, 9007199254740992, 9007199254740994, null, \"a\", true, [], {}, 2, 3, 1, 0, -1, 1.5, 2.5, 7, 8, 9, 10, 11, 12, 13, 14, 15, 16, 17, 18]",
];

/// numeric edge values: a third of the calls draw all their arguments from here, so that
/// every pair of them meets every binary function within a quick run
const EDGE_NUMBERS: &[&str] = &[
    "-9223372036854775808", "-1", "0", "1", "9223372036854775807", "18446744073709551615", "1e308", "-0.5",
    // zero as a negative integer token and as a negative double: representations of their own
    "-0", "-0.0",
];

/// values with a length, for the calls that pair one of them with numeric edges
const SHAPES: &[&str] = &["[1, 2, 3]", "\"abc\"", "{\"a\": 1}", "[]", ".arr", ".s", "[\"a\"]", "\"\""];

/// further numeric edges (every spelling of zero, the widths at which counters wrap, the
/// edge of exactly representable integers): one edge argument in four comes from here
const EDGE_MORE: &[&str] = &[
    "-0", "-0.0", "0.0", "0e0", "-0e0", "127", "128", "255", "256", "32767", "32768", "65535", "65536", "2147483647", "2147483648",
    "-2147483649", "4294967295", "4294967296", "9007199254740992", "9007199254740993", "4503599627370496.0", "1e15", "1e16",
    "1e400", "-1e400", "1e-400", "5e-324", "0.1", "-1.5", "9223372036854775808", "-9223372036854775809", "18446744073709551616",
];

const SMALL_ARGS: &[&str] = &["0", "1", "2", "3", "10", "100", "-1", "1.5", "null", "\"a\"", "[1, 2]", ".arr"];

/// functions whose cost is driven by a numeric argument: literals stay small (resource
/// exhaustion is out of the property's scope)
fn amplifier(name: &str) -> bool {
    matches!(name, "range" | "cross" | "zip" | "push" | "push_front" | "join" | "concat")
}

/// The property bounds nesting at 64 (resource exhaustion is out of scope): cut the stream
/// where a 65th bracket would be opened (brackets inside strings do not count).
fn cap_nesting(data: &mut Vec<u8>, max: usize) {
    let mut depth = 0usize;
    let mut in_string = false;
    let mut escaped = false;
    for i in 0..data.len() {
        let c = data[i];
        if in_string {
            if escaped {
                escaped = false;
            } else if c == b'\\' {
                escaped = true;
            } else if c == b'"' {
                in_string = false;
            }
            continue;
        }
        match c {
            b'"' => in_string = true,
            b'[' | b'{' => {
                if depth == max {
                    data.truncate(i);
                    return;
                }
                depth += 1;
            }
            b']' | b'}' => depth = depth.saturating_sub(1),
            _ => {}
        }
    }
}

fn mutate(rng: &mut Rng, data: &mut Vec<u8>, other: &[u8]) -> &'static str {
    if data.is_empty() {
        data.push(*rng.pick(ALPHABET));
        return "insert";
    }
    match rng.below(8) {
        0 => {
            let i = rng.below(data.len());
            data[i] ^= 1 << rng.below(8);
            "bitflip"
        }
        1 => {
            let i = rng.below(data.len() + 1);
            data.insert(i, *rng.pick(ALPHABET));
            "insert"
        }
        2 => {
            let i = rng.below(data.len());
            data.remove(i);
            "delete"
        }
        3 => {
            let i = rng.below(data.len());
            let n = rng.range(1, 8).min(data.len() - i);
            let chunk: Vec<u8> = data[i..i + n].to_vec();
            let at = rng.below(data.len() + 1);
            for (k, b) in chunk.iter().enumerate() {
                data.insert(at + k, *b);
            }
            "duplicate"
        }
        4 => {
            // splice with another stream
            let i = rng.below(data.len() + 1);
            let j = rng.below(other.len() + 1);
            data.truncate(i);
            data.extend_from_slice(&other[j..]);
            "splice"
        }
        5 => {
            // truncation = producer crash
            let i = rng.below(data.len() + 1);
            data.truncate(i);
            "truncate"
        }
        6 => {
            let i = rng.below(data.len() + 1);
            let bad: &[&[u8]] = &[b"\xff", b"\xc3", b"\xe2\x82", b"\xf0\x9f\x98", b"\xed\xa0\x80", b"\xc0\xaf", b"\x80"];
            let b = *rng.pick(bad);
            for (k, x) in b.iter().enumerate() {
                data.insert(i + k, *x);
            }
            "invalid-utf8"
        }
        _ => {
            let i = rng.below(data.len());
            data[i] = rng.below(256) as u8;
            "random-byte"
        }
    }
}

fn gen_illtyped_expr(rng: &mut Rng, depth: usize) -> String {
    let fs = funcs::funcs();
    let usable: Vec<&funcs::Func> = fs.iter().filter(|f| !funcs::excluded_name(f.name)).collect();
    if usable.is_empty() {
        return ".".into();
    }
    let f = *rng.pick(&usable);
    let mut names = vec![f.name];
    names.extend_from_slice(f.aliases);
    let name = *rng.pick(&names);
    let max = if f.max == usize::MAX { f.min + 2 } else { f.max };
    let n = rng.range(f.min, max.max(f.min));
    let mut args = Vec::new();
    let mode = rng.below(6);
    let edges_only = mode < 2;
    // a value with a length in one position, numeric edges in the others (indices, counts)
    let shaped = mode == 2;
    let shape_at = rng.below(n.max(1));
    for i in 0..n {
        if shaped && i == shape_at && !(amplifier(name) || amplifier(f.name)) {
            args.push((*rng.pick(SHAPES)).to_string());
            continue;
        }
        if (edges_only || shaped) && !(amplifier(name) || amplifier(f.name)) {
            let pool = if rng.chance(1, 4) { EDGE_MORE } else { EDGE_NUMBERS };
            args.push((*rng.pick(pool)).to_string());
            continue;
        }
        if amplifier(name) || amplifier(f.name) {
            args.push((*rng.pick(SMALL_ARGS)).to_string());
        } else if depth > 0 && rng.chance(1, 5) {
            args.push(gen_illtyped_expr(rng, depth - 1));
        } else if depth > 0 && rng.chance(1, 8) {
            let c = funcs::corpus();
            if c.is_empty() {
                args.push(".".into());
            } else {
                args.push(rng.pick(c).expr.clone());
            }
        } else {
            args.push((*rng.pick(ARG_POOL)).to_string());
        }
    }
    if rng.chance(1, 10) && !args.is_empty() && args[0] == "." {
        // leading-dot sugar
        format!("(.{} {})", name, args[1..].join(" "))
    } else if rng.chance(1, 6) {
        format!("({} {})", name, args.join(", "))
    } else {
        format!("({} {})", name, args.join(" "))
    }
}

impl Property for C05 {
    fn id(&self) -> &'static str {
        "C05"
    }
    fn level(&self) -> &'static str {
        "exploration"
    }
    fn rule(&self) -> &'static str {
        "Stream half (what simulation decides): a valid generated stream is corrupted by 1..6 operators drawn from {bit flip, byte insert/delete/duplicate-range, splice with a second stream, truncation = producer crash at an arbitrary byte, invalid UTF-8 sequences, random byte}, or is a random string over 24 JSON-significant bytes, or a nest of up to 64 brackets, or a short fragment (valid, corrupted or random) repeated 60..400 times (long histories for whatever a reader accumulates), and is delivered through the SimSource stub under a seeded chunking/EINTR plan - on stdin or, in a quarter of the scenarios, as a file argument behind the opener seam (hook H2) underneath jawk's own BufReader - to a pipeline from the swarm grammar under any --on-error policy. Expression half (reach limited to the corpus): every function name and alias scraped from the working tree (exec, trigger, now, env removed) called with arity-correct arguments from a pool of ill-typed, empty, non-ASCII and boundary values, nested up to depth 2, used as --select/--filter/--sort-by/--group-by/--split-by over schema records; documented examples; expression texts with multi-byte characters around byte 32. Oracle: no panic, no simulator abort (event budget; read calls <= 2*len+64), result is Ok or Err. evaluations = jawk executions; non-trivial = the stream was actually corrupted (and the corruption consumed) or the expression was evaluated on at least one record; distinct = distinct abstract traces."
    }
    fn assumptions(&self) -> Vec<String> {
        vec![
            "no exhaustive enumeration of short strings is attempted (that would be bounded model checking); the alphabet family samples that region".into(),
            "resource exhaustion is out of scope: nesting <= 64, range/cross-like amplifiers get literals <= 100, streams <= 4 KiB".into(),
            "a loop that touches no seam is only caught by the wall-clock backstop (45 s in the batch, then 90 s alone in a fresh process)".into(),
            "an abort (stack overflow, allocation failure) would kill the harness process and show up as a harness error, not as a replayable violation".into(),
        ]
    }
    fn shrink_caps(&self) -> ShrinkCaps {
        ShrinkCaps {
            drop_pieces: true,
            simplify_records: true,
            shrink_raw: true,
            drop_opts: true,
        }
    }
    fn budget(&self, tier: Tier) -> Budget {
        match tier {
            Tier::Quick => Budget {
                seconds: 60,
                max_cases: 2_000_000,
            },
            Tier::Thorough => Budget {
                seconds: 600,
                max_cases: 20_000_000,
            },
        }
    }

    fn generate(&self, rng: &mut Rng, tier: Tier) -> Case {
        let family = match if rng.chance(1, 150) { 24 } else { rng.below(24) } {
            24 => "big-rows",
            0..=6 => "mutated",
            7..=8 => "alphabet",
            9 => "nesting",
            10..=16 => "ill-typed",
            17 => "documented",
            18..=19 => "expr-text",
            20..=21 => "repeated",
            _ => "numbers",
        };
        let mut case = Case::new("C05", family);
        let max_records = if tier == Tier::Thorough { 30 } else { 8 };
        match family {
            "mutated" => {
                let w = StreamWish {
                    min_records: 1,
                    max_records,
                    noise_eighths: if rng.chance(1, 4) { 2 } else { 0 },
                    allow_touch: true,
                    spell_level: 2,
                    allow_big: true,
                    schema_only: false,
                };
                let mut data = Case {
                    pieces: gen_stream(rng, &w),
                    ..Case::new("x", "x")
                }
                .stream();
                let other = Case {
                    pieces: gen_stream(rng, &w),
                    ..Case::new("x", "x")
                }
                .stream();
                let n = rng.range(1, 6);
                let mut ops = Vec::new();
                for _ in 0..n {
                    ops.push(mutate(rng, &mut data, &other));
                }
                data.truncate(4096);
                case.strs.insert("mutations".into(), ops.join(","));
                case.pieces = vec![Piece::raw(data)];
                let mut wish = PipeWish::any();
                wish.allow_corpus = true;
                case.opts = gen_pipe(rng, &wish).opts;
                case.opts.push(policy_opt(*rng.pick(&[
                    Policy::Ignore,
                    Policy::Panic,
                    Policy::Stderr,
                    Policy::Stdout,
                ])));
            }
            "alphabet" => {
                let n = rng.range(0, 14);
                let data: Vec<u8> = (0..n).map(|_| *rng.pick(ALPHABET)).collect();
                case.pieces = vec![Piece::raw(data)];
                if rng.chance(1, 2) {
                    let mut wish = PipeWish::any();
                    wish.allow_corpus = false;
                    case.opts = gen_pipe(rng, &wish).opts;
                }
                case.opts.push(policy_opt(*rng.pick(&[
                    Policy::Ignore,
                    Policy::Panic,
                    Policy::Stderr,
                    Policy::Stdout,
                ])));
            }
            "big-rows" => {
                // rows of 7..70 KB full of multi-byte characters, printed raw: whatever
                // moves output in blocks meets a character lying across a block boundary.
                // Either one long string per record, or one big row that grouping builds out
                // of many small inputs.
                let chars = ["a", "é", "日", "😀", "ß", "\u{7ff}", "\u{ffff}"];
                let grouped = rng.chance(1, 3);
                let n = if grouped { rng.range(150, 600) } else { rng.range(1, 3) };
                for i in 0..n {
                    let target = if grouped {
                        rng.range(10, 120)
                    } else {
                        *rng.pick(&[7_000usize, 8_100, 8_190, 8_190, 9_000, 9_000, 16_300, 16_300, 20_000, 24_500, 65_400]) + rng.below(40)
                    };
                    let mut t = String::with_capacity(target + 8);
                    // a seeded mix, so that the offsets of the characters differ from row to row
                    let dense = rng.chance(1, 2);
                    while t.len() < target {
                        t.push_str(if dense { *rng.pick(&chars[1..]) } else { *rng.pick(&chars) });
                    }
                    let v = match rng.below(3) {
                        0 => Val::Str(t),
                        1 => Val::Obj(vec![("id".into(), Val::Int(i as i128)), ("g".into(), Val::Str("a".into())), ("s".into(), Val::Str(t))]),
                        _ => Val::Arr(vec![Val::Str(t), Val::Int(i as i128)]),
                    };
                    // spelling level 0 keeps the characters raw in the input as well
                    case.pieces.push(Piece::rec(spell(&v, rng, 0), i as u32));
                    case.pieces.push(Piece::gap(vec![b'\n']));
                }
                match rng.below(5) {
                    0 => case.opts.push(vec!["--utf8-strings".into()]),
                    1 => {
                        case.opts.push(vec!["-o".into(), "text".into()]);
                        case.opts.push(vec!["--select".into(), (*rng.pick(&[".=x", ".s=x", "(stringify .)=x", "#0=x"])).to_string()]);
                    }
                    2 => {
                        case.opts.push(vec!["--output-style=csv".into()]);
                        case.opts.push(vec!["--select".into(), (*rng.pick(&[".=x", ".s=x", "(stringify .)=x", "#0=x"])).to_string()]);
                        case.opts.push(vec!["--select".into(), ".id=y".into()]);
                    }
                    3 => {
                        case.opts.push(vec!["--utf8-strings".into()]);
                        case.opts.push(vec![format!("--style={}", rng.pick(&["pretty", "consise", "one-line"]))]);
                    }
                    _ => {
                        case.opts.push(vec!["-o".into(), "text".into()]);
                        case.opts.push(vec!["--select".into(), ".=x".into()]);
                        case.opts.push(vec![format!("--row-seperator={}", rng.pick(&["", " ", "日"]))]);
                    }
                }
                if grouped || rng.chance(1, 4) {
                    case.opts.retain(|o| o[0] != "--output-style=csv");
                    case.opts.push(vec![(*rng.pick(&["--group-by=.g", "--merge", "--group-by=(stringify .id)"])).to_string()]);
                    if !has_opt(&case.opts, "--utf8-strings") && !has_opt(&case.opts, "-o") {
                        case.opts.push(vec!["--utf8-strings".into()]);
                    }
                }
            }
            "numbers" => {
                // number-shaped tokens of every build: signs, long digit runs, fractions,
                // exponents of both cases and signs, up to three exponent digits
                let n = rng.range(1, 16);
                let mut data = Vec::new();
                for _ in 0..n {
                    let mut t = String::new();
                    if rng.chance(1, 3) {
                        t.push('-');
                    }
                    let il = *rng.pick(&[0usize, 1, 1, 1, 2, 5, 15, 17, 19, 20, 25]);
                    for k in 0..il {
                        t.push(if k == 0 && il > 1 && rng.chance(3, 4) { *rng.pick(&['1', '9', '4']) } else { *rng.pick(&['0', '1', '5', '9', '7']) });
                    }
                    if rng.chance(1, 2) {
                        t.push('.');
                        let fl = *rng.pick(&[0usize, 1, 2, 6, 15, 22, 30]);
                        for _ in 0..fl {
                            t.push(*rng.pick(&['0', '0', '1', '5', '9']));
                        }
                    }
                    if rng.chance(1, 2) {
                        t.push(*rng.pick(&['e', 'e', 'e', 'E']));
                        t.push_str(*rng.pick(&["", "-", "+", "-", "-"]));
                        t.push_str(*rng.pick(&["0", "1", "5", "17", "21", "22", "23", "30", "300", "308", "309", "324", "999", ""]));
                    }
                    data.extend_from_slice(t.as_bytes());
                    data.push(*rng.pick(&[b' ', b'\n', b',', b'\n']));
                }
                if rng.chance(1, 3) {
                    let mut w = vec![b'['];
                    w.extend_from_slice(&data);
                    w.push(b']');
                    data = w;
                }
                case.pieces = vec![Piece::raw(data)];
                if rng.chance(1, 3) {
                    case.opts.push(vec!["--select".into(), (*rng.pick(&["(+ . 1)=x", "(stringify .)=x", "(sort .)=x", "(* . 1e300)=x"])).to_string()]);
                }
                case.opts.push(policy_opt(*rng.pick(&[Policy::Ignore, Policy::Stderr, Policy::Stdout])));
            }
            "repeated" => {
                // a long history of the same short fragment (valid, corrupted or random):
                // whatever a reader accumulates per value or per error gets its chance to
                // overflow, leak or saturate inside one stream
                let mut frag: Vec<u8> = match rng.below(4) {
                    0 => {
                        let n = rng.range(1, 8);
                        (0..n).map(|_| *rng.pick(ALPHABET)).collect()
                    }
                    1 => (*rng.pick(&[&b"[}"[..], b"{]", b"[", b"{", b"[]", b"{}", b"\"", b"[1,", b"{\"a\":", b"]", b"-", b"\"\\u12"])).to_vec(),
                    _ => spell(&gen_val(rng, 2, true), rng, 1),
                };
                if rng.chance(1, 2) {
                    let other = frag.clone();
                    mutate(rng, &mut frag, &other);
                }
                let sep: &[u8] = *rng.pick(&[&b" "[..], b"\n", b"", b",", b"\r\n"]);
                let times = rng.range(60, 400);
                let mut data = Vec::new();
                for _ in 0..times {
                    if data.len() + frag.len() + sep.len() > 4000 {
                        break;
                    }
                    data.extend_from_slice(&frag);
                    data.extend_from_slice(sep);
                }
                if rng.chance(1, 2) {
                    // and then something ordinary
                    data.extend_from_slice(&spell(&gen_val(rng, 2, true), rng, 1));
                    data.push(b'\n');
                }
                case.pieces = vec![Piece::raw(data)];
                if rng.chance(1, 2) {
                    let mut wish = PipeWish::any();
                    wish.allow_corpus = false;
                    case.opts = gen_pipe(rng, &wish).opts;
                }
                case.opts.push(policy_opt(*rng.pick(&[
                    Policy::Ignore,
                    Policy::Panic,
                    Policy::Stderr,
                    Policy::Stdout,
                ])));
            }
            "nesting" => {
                let mut data = spell(&gen_nested(rng), rng, 1);
                if rng.chance(1, 2) {
                    let other = data.clone();
                    mutate(rng, &mut data, &other);
                }
                if rng.chance(1, 3) {
                    // unbalanced openers only
                    let d = rng.range(1, 64);
                    data = (0..d).map(|_| *rng.pick(b"[{")).collect();
                }
                case.pieces = vec![Piece::raw(data)];
                if rng.chance(1, 2) {
                    case.opts.push(vec!["--select".into(), "(stringify .)=x".into()]);
                }
                if rng.chance(1, 2) {
                    case.opts.push(vec![format!("--style={}", rng.pick(&["pretty", "consise", "one-line"]))]);
                }
            }
            "ill-typed" | "documented" => {
                let w = StreamWish {
                    min_records: 1,
                    max_records: 5,
                    noise_eighths: 0,
                    allow_touch: false,
                    spell_level: 0,
                    allow_big: true,
                    schema_only: false,
                };
                case.pieces = gen_stream(rng, &w);
                let (expr, input) = if family == "documented" && !funcs::corpus().is_empty() {
                    let c = rng.pick(funcs::corpus());
                    (c.expr.clone(), c.input.clone())
                } else {
                    (gen_illtyped_expr(rng, 2), None)
                };
                if let Some(i) = input {
                    case.pieces.insert(0, Piece::gap(vec![b'\n']));
                    case.pieces.insert(0, Piece::raw(i.into_bytes()));
                }
                let pos = rng.below(12);
                match pos {
                    0 => case.opts.push(vec![format!("--filter={expr}")]),
                    1 => case.opts.push(vec![format!("--sort-by={expr}")]),
                    2 => case.opts.push(vec![format!("--group-by={expr}")]),
                    3 => case.opts.push(vec![format!("--split-by={expr}")]),
                    4 => {
                        case.opts.push(vec!["--set".into(), format!("@m={expr}")]);
                        case.opts.push(vec!["--select".into(), "@m=x".into()]);
                    }
                    _ => case.opts.push(vec!["--select".into(), format!("{expr}=x")]),
                }
                if rng.chance(1, 4) {
                    case.opts.push(vec![format!("-o={}", rng.pick(&["text", "json"]))]);
                }
                if rng.chance(1, 4) {
                    case.opts.push(vec![format!("--regular-expression-cache-size={}", rng.pick(&[1usize, 2, 64]))]);
                }
                if rng.chance(1, 8) {
                    case.opts.push(vec!["--only-objects-and-arrays".into()]);
                }
            }
            _ => {
                // expression texts with multi-byte characters at every offset around byte 32
                let pad = rng.range(20, 40);
                let ch = *rng.pick(&["é", "😀", "日", "ß"]);
                let kind = rng.below(4);
                let text = match kind {
                    0 => format!("\"{}{}{}\"", "a".repeat(pad), ch, "b".repeat(rng.below(4))),
                    1 => format!(".{}{}", "k".repeat(pad), ch),
                    2 => format!("(concat \"{}{}\" .s)", "a".repeat(pad), ch),
                    _ => format!("(parse \"\\\"{}{}\\\"\")", "a".repeat(pad), ch),
                };
                let w = StreamWish::clean(3);
                case.pieces = gen_stream(rng, &w);
                case.pieces.push(Piece::rec(
                    format!("{{\"s\":\"{}{}\"}}", "x".repeat(pad), ch).into_bytes(),
                    99,
                ));
                match rng.below(5) {
                    0 => case.opts.push(vec![format!("--filter={text}")]),
                    1 => case.opts.push(vec![format!("--sort-by={text}")]),
                    2 => case.opts.push(vec!["--set".into(), format!("v={text}")]),
                    3 => case.opts.push(vec!["--select".into(), "(parse .s)=x".into()]),
                    _ => case.opts.push(vec!["--select".into(), format!("{text}=x")]),
                }
            }
        }
        for p in case.pieces.iter_mut() {
            if p.kind == Kind::Raw {
                cap_nesting(&mut p.bytes.0, 64);
            }
        }
        let len = case.stream().len();
        case.delivery = gen_delivery(rng, len);
        if family == "big-rows" && rng.chance(2, 3) {
            case.delivery = Delivery {
                whole: true,
                ..Delivery::default()
            };
        }
        if rng.chance(1, 4) {
            // sinks that accept a few bytes at a time (a short write may end anywhere, also
            // inside a multi-byte character)
            case.out = gen_sink_garnish(rng, 300);
            case.err = gen_sink_garnish(rng, 100);
        }
        if matches!(family, "mutated" | "alphabet" | "nesting" | "repeated" | "numbers") && rng.chance(1, 4) {
            // the same hostile bytes as a file argument behind the opener seam, in seeded
            // chunks underneath jawk's own BufReader (first chunks of 1-2 bytes included)
            let mut plan = gen_file_plan(rng, len);
            if rng.chance(1, 2) {
                plan.chunks.insert(0, rng.range(1, 3));
            }
            case.files = vec![plan];
        }
        case
    }

    fn check(&self, case: &Case, ctx: &mut Ctx) -> Option<Violation> {
        let input = case.stream();
        let on_file = case.files.len() == 1 && !case.opts.iter().flatten().any(|t| t.contains('&'));
        let mut spec = if on_file {
            let paths = ctx.fresh_paths(1);
            ctx.stats.probe("hostile stream delivered as a file argument");
            sim_files_spec(case, &paths, &[input.clone()], &case.files)
        } else {
            case_spec(case, &input)
        };
        // one event per call at a seam; a sink that takes one byte per call turns every output
        // byte into an event, so the budget (a bound on runaway output) is raised with it
        spec.max_events = if case.out.short.is_empty() && case.err.short.is_empty() { 400_000 } else { 4_000_000 };
        let r = ctx.exec(spec);
        let reads = r
            .obs
            .events
            .iter()
            .filter(|e| e.chan == Chan::Read && !matches!(e.res, Res::Intr))
            .count();
        match case.family.as_str() {
            "mutated" | "alphabet" | "nesting" | "repeated" | "numbers" => {
                if r.obs.consumed > 0 || r.obs.delivered > 0 || input.is_empty() {
                    ctx.stats.nontrivial = true;
                }
                if let Some(m) = case.strs.get("mutations") {
                    for op in m.split(',') {
                        ctx.stats.fault(&format!("stream.{op}"), 1);
                    }
                }
            }
            _ => {
                if !r.obs.stdout.is_empty() || r.outcome.is_ok() {
                    ctx.stats.nontrivial = true;
                }
                if matches!(r.outcome, Outcome::Err(_)) && r.obs.opened == 0 {
                    ctx.stats.probe("expression rejected at parse time");
                }
            }
        }
        ctx.stats.probe(&format!("outcome {}", r.outcome.class()));
        if let Outcome::Abort(why) = &r.outcome {
            return viol("C05.terminates", format!("jawk does not finish on a {}-byte stream: {why}", input.len()));
        }
        if (on_file || (!case.delivery.whole && case.delivery.bufcap.is_none())) && reads > 2 * input.len() + 64 {
            return viol(
                "C05.terminates",
                format!("{reads} read calls for a {}-byte stream", input.len()),
            );
        }
        if let Outcome::Panic(m, l) = &r.outcome {
            if !(l.contains("/verif/sim/") || l.starts_with("src/")) {
                ctx.jawk_panic = None;
                return viol("C05.panic", format!("jawk panicked: {m} at {l}"));
            }
        }
        None
    }
}
