//! C11 — stateless pipelines are record-local: restart / redelivery / reordering equivalence.

use super::{Budget, Property, ShrinkCaps};
use crate::case::*;
use crate::common::*;
use crate::gen::*;
use crate::rng::Rng;
use crate::world::{Delivery, SinkPlan};

pub struct C11;

fn records(case: &Case) -> Vec<&Piece> {
    case.pieces.iter().filter(|p| p.kind == Kind::Rec).collect()
}

fn permute_members(v: &Val, rng: &mut Rng) -> Val {
    match v {
        Val::Obj(ms) => {
            let mut ms: Vec<(String, Val)> = ms.iter().map(|(k, x)| (k.clone(), permute_members(x, rng))).collect();
            if ms.len() >= 2 {
                let i = rng.below(ms.len());
                let j = rng.below(ms.len());
                ms.swap(i, j);
                if rng.chance(1, 2) {
                    ms.reverse();
                }
            }
            Val::Obj(ms)
        }
        Val::Arr(xs) => Val::Arr(xs.iter().map(|x| permute_members(x, rng)).collect()),
        other => other.clone(),
    }
}

fn stream_of(recs: &[&Piece]) -> Vec<u8> {
    let mut v = Vec::new();
    for r in recs {
        v.extend_from_slice(&r.bytes.0);
        v.push(b'\n');
    }
    v
}

/// Near-identical nested objects: one base object and variants of it whose tokens, read
/// without the brackets, are the same or differ in one leaf (a member moved one level up,
/// a name or a value bumped, an object turned into an array). Whatever a run remembers
/// about a value under a digest of it meets its look-alikes here.
fn gen_cluster(rng: &mut Rng) -> Vec<Val> {
    let keys = ["a", "b", "c", "x", "y", "k"];
    let mut ks: Vec<&str> = keys.to_vec();
    rng.shuffle(&mut ks);
    let (k1, k2, k3, k4) = (ks[0].to_string(), ks[1].to_string(), ks[2].to_string(), ks[3].to_string());
    let k3b = ks[4].to_string();
    let l = Val::Int(rng.range_i64(0, 3) as i128);
    let l2 = Val::Int(rng.range_i64(4, 6) as i128);
    let m = Val::Int(rng.range_i64(0, 3) as i128);
    let obj = |ms: Vec<(String, Val)>| Val::Obj(ms);
    let x = obj(vec![(k1.clone(), obj(vec![(k2.clone(), obj(vec![(k3.clone(), l.clone())]))])), (k4.clone(), m.clone())]);
    let y = obj(vec![(k1.clone(), obj(vec![(k2.clone(), obj(vec![])), (k3.clone(), l.clone())])), (k4.clone(), m.clone())]);
    let y2 = obj(vec![(k1.clone(), obj(vec![(k2.clone(), obj(vec![(k3.clone(), l.clone())])), (k4.clone(), m.clone())]))]);
    let z = obj(vec![(k1.clone(), obj(vec![(k2.clone(), obj(vec![(k3b.clone(), l.clone())]))])), (k4.clone(), m.clone())]);
    let w = obj(vec![(k1.clone(), obj(vec![(k2.clone(), obj(vec![(k3.clone(), l2.clone())]))])), (k4.clone(), m.clone())]);
    let v = obj(vec![(k1.clone(), obj(vec![(k2.clone(), Val::Arr(vec![Val::Str(k3.clone()), l.clone()]))])), (k4.clone(), m.clone())]);
    vec![x, y, z, w, y2, v]
}

const CLUSTER_EXPRS: &[&str] = &[
    "(sort .)", "(sort_unique .)", "(sort_by . .)", "(< (get . 0) (get . 1))", "(>= (get . 0) (get . 1))", "(= (get . 0) (get . 1))",
    "(sort (push . (get . 0)))",
];

impl Property for C11 {
    fn id(&self) -> &'static str {
        "C11"
    }
    fn level(&self) -> &'static str {
        "exploration"
    }
    fn rule(&self) -> &'static str {
        "A scenario = a list of up to 20 generated records - 80..220 in one scenario of ten - (some of them redeliveries of an earlier record in a fresh, value-preserving spelling, some an earlier record with its object members in another order) x a stateless pipeline (--set, --split-by, --filter, --select; generated templates, documented examples, regex functions with patterns taken from the records; no & selectors) x an output style x a regex cache size in {0,1,2,64} that is the same in all runs of the scenario. Record-level transport events applied by the harness: restart of the consumer at a record boundary k (run on A[..k], then on A[k..]), redelivery and reordering (a seeded plan pi with repetitions and drops). Oracle, all from executions of the same build: H = stdout on the empty stream, body(r) = stdout on [r] minus H; stdout(A) = H + sum body(r_i) (solo-sum); stdout(A[..k]) + body part of stdout(A[k..]) = stdout(A) (restart); stdout(pi(A)) = H + sum body(r_pi(j)) (redelivery); two spellings of the same record have the same body (spelling). Comparisons are on whole byte strings. evaluations = jawk executions; non-trivial = at least 2 records and a transport event (cut strictly inside the list, or a plan that is not the identity); distinct = distinct abstract traces. Round 7: look-alike clusters (a base object and variants whose tokens, read without brackets, coincide or differ in one leaf) under ordering/comparing expressions, each run in a thread of its own (as one scenario in six is anyway: isolated_runs); one scenario in a hundred has a record of 1.1..2.4 MiB among ordinary ones; macros that call a macro bound by their caller via define."
    }
    fn assumptions(&self) -> Vec<String> {
        vec![
            "weak fit for this technique: the 'faults' are record-level transport events (restart, redelivery, reordering), decided with reference runs of the same code only".into(),
            "scenarios in which any run fails or panics are skipped (panics are C05's subject)".into(),
        ]
    }
    fn shrink_caps(&self) -> ShrinkCaps {
        ShrinkCaps {
            drop_pieces: true,
            simplify_records: false,
            shrink_raw: false,
            drop_opts: true,
        }
    }
    fn budget(&self, tier: Tier) -> Budget {
        match tier {
            Tier::Quick => Budget {
                seconds: 60,
                max_cases: 14_000,
            },
            Tier::Thorough => Budget {
                seconds: 600,
                max_cases: 3_000_000,
            },
        }
    }

    fn generate(&self, rng: &mut Rng, tier: Tier) -> Case {
        let mut case = Case::new("C11", "transport");
        // one scenario in ten has a long history (whatever accumulates per record - counters,
        // caches, reused buffers - gets the chance to saturate within one run)
        let long = rng.chance(1, 10);
        // ... and one in eighty a very long one of tiny records (counters that only saturate
        // after a thousand events)
        let very_long = rng.chance(1, 80);
        let n = if very_long {
            rng.range(1100, 1600)
        } else if long {
            rng.range(80, 220)
        } else {
            rng.range(0, if tier == Tier::Thorough { 20 } else { 10 })
        };
        let mut vals: Vec<Val> = Vec::new();
        // one scenario in fifteen: deeply nested records, mostly pretty-printed
        let deep = !very_long && !long && rng.chance(1, 15);
        // one scenario in twelve: every record is built from one cluster of look-alikes
        let cluster: Option<Vec<Val>> = if !very_long && rng.chance(1, 12) { Some(gen_cluster(rng)) } else { None };
        // one scenario in a hundred has one record of more than a MiB (whatever is reused from
        // row to row - buffers - has to cope with a giant in between)
        let giant_at = if !very_long && !long && n > 0 && rng.chance(1, 100) { Some(rng.below(n)) } else { None };
        // ... and one in thirty a large one (a length beyond sixteen bits)
        let large_at = if giant_at.is_none() && !very_long && n > 0 && rng.chance(1, 60) { Some(rng.below(n)) } else { None };
        // positions holding a raw token instead of a spelled value (never redelivered)
        let mut odd: Vec<usize> = Vec::new();
        for i in 0..n {
            if let Some(c) = &cluster {
                let v = if rng.chance(1, 3) {
                    rng.pick(c).clone()
                } else {
                    Val::Arr((0..rng.range(2, 3)).map(|_| rng.pick(c).clone()).collect())
                };
                case.pieces.push(Piece::rec(spell(&v, rng, 1), i as u32));
                vals.push(v);
                continue;
            }
            if giant_at == Some(i) || large_at == Some(i) {
                let len = if large_at == Some(i) { rng.range(65_500, 140_000) } else { rng.range(1_100_000, 2_400_000) };
                let v = if rng.chance(1, 2) {
                    Val::Str("ab".repeat(len / 2))
                } else {
                    Val::Obj(vec![("id".into(), Val::Int(i as i128)), ("s".into(), Val::Str("x".repeat(len))), ("arr".into(), Val::Arr(vec![Val::Int(1)]))])
                };
                case.pieces.push(Piece::rec(spell(&v, rng, 0), i as u32));
                let last = case.pieces.len() - 1;
                case.pieces[last].tag = "giant".into();
                vals.push(v);
                continue;
            }
            if rng.chance(1, 25) {
                // a token that is JSON grammar but that jawk cannot hold (or tokenises in its
                // own way): whatever it does with it, it must do it record-locally
                let t = *rng.pick(&["1e999", "-2e400", "1e-999", "123456789012345678901234567890", "[1e999, 2]", "{\"a\": 1e999}", "0.1e+400"]);
                case.pieces.push(Piece::rec(t.as_bytes().to_vec(), i as u32));
                vals.push(Val::Null);
                odd.push(i);
                continue;
            }
            if i > 0 && rng.chance(1, 12) && !odd.contains(&(vals.len() - 1)) {
                // an earlier record with the members of its objects in another order: a
                // different value (it prints differently) that compares equal member-wise
                let j = vals.len() - 1;
                let v = permute_members(&vals[j], rng);
                case.pieces.push(Piece::rec(spell(&v, rng, 1), i as u32));
                let last = case.pieces.len() - 1;
                case.pieces[last].tag = "members-permuted".into();
                vals.push(v);
                continue;
            }
            if i > 0 && rng.chance(1, 4) && odd.is_empty() {
                // redelivery of an earlier record in a fresh spelling
                let j = rng.below(vals.len());
                let v = vals[j].clone();
                let id = case.pieces[j].id.unwrap_or(j as u32);
                case.pieces.push(Piece::rec(spell(&v, rng, 2), id));
                vals.push(v);
                // keep ids: the id of a redelivery is the id of the original
                let last = case.pieces.len() - 1;
                case.pieces[last].tag = "redelivery".into();
                continue;
            }
            let v = if very_long {
                // small objects whose array holds one element a macro can work on and one it
                // cannot (it yields nothing for that one), and some scalars
                if rng.chance(4, 5) {
                    Val::Obj(vec![
                        ("id".into(), Val::Int(i as i128 % 50)),
                        ("arr".into(), Val::Arr(vec![Val::Str("a".into()), Val::Int(rng.range_i64(0, 9) as i128)])),
                    ])
                } else {
                    gen_scalar(rng, false)
                }
            } else if long && rng.chance(1, 2) {
                // small values with many empty containers
                gen_val(rng, 2, false)
            } else if deep {
                // values nested 9..40 deep (arrays and objects in turn, with siblings on the
                // way down): whatever a printer keeps per depth meets the same depth again
                let d = rng.range(9, 40);
                let mut v = gen_scalar(rng, false);
                for k in 0..d {
                    v = match rng.below(4) {
                        0 => Val::Arr(vec![v]),
                        1 => Val::Arr(vec![Val::Int(k as i128), v]),
                        2 => Val::Obj(vec![("k".into(), v)]),
                        _ => Val::Obj(vec![("a".into(), Val::Str("x".into())), ("k".into(), v)]),
                    };
                }
                v
            } else {
                gen_record(rng, i as u32, false)
            };
            // identity = index of first delivery
            case.pieces.push(Piece::rec(spell(&v, rng, 1), i as u32));
            vals.push(v);
        }
        // ids of redeliveries must point at the first delivery's id
        let mut wish = PipeWish::any();
        wish.max_class = Class::Stateless;
        wish.allow_corpus = true;
        let mut pipe = gen_pipe(rng, &wish);
        pipe.opts.retain(|o| !o[0].starts_with("--regular-expression-cache-size"));
        if pipe.uses_regex || rng.chance(1, 3) {
            pipe.opts.push(vec![format!(
                "--regular-expression-cache-size={}",
                rng.pick(&[0usize, 1, 2, 64])
            )]);
            if !pipe.uses_regex && pipe.style != Style::Csv {
                pipe.opts.push(vec!["--select".into(), format!("{}=rx", rng.pick(REGEX_SELECT_EXPRS))]);
            }
        }
        case.opts = pipe.opts;
        if deep {
            case.opts = match rng.below(3) {
                0 => vec![],
                1 => vec![vec!["--select".into(), ".=v".into()]],
                _ => vec![vec!["--select".into(), "(stringify .)=s".into()], vec!["--select".into(), ".=v".into()]],
            };
            if rng.chance(2, 3) {
                case.opts.push(vec!["--style=pretty".into()]);
            }
        }
        if very_long {
            case.set("fresh_thread", 1);
        }
        if very_long && rng.chance(1, 2) {
            // a macro applied to every array element: nothing for strings, a value for numbers
            case.opts = vec![
                vec!["--set".into(), "@inc=(+ . 1)".into()],
                vec!["--select".into(), "(map .arr @inc)=y".into()],
                vec!["--select".into(), ".id=id".into()],
            ];
        }
        if cluster.is_some() {
            case.set("isolated_runs", 1);
            // expressions that order or compare what they are given
            case.opts = match rng.below(3) {
                0 => {
                    let lit = String::from_utf8(spell(rng.pick(cluster.as_ref().unwrap()), rng, 0)).unwrap_or_default();
                    vec![vec!["--split-by=(as_array .)".into()], vec![format!("--filter=({} . {lit})", rng.pick(&["<", ">=", "=", ">"]))]]
                }
                _ => (0..rng.range(1, 2)).map(|k| vec!["--select".to_string(), format!("{}=c{k}", rng.pick(CLUSTER_EXPRS))]).collect(),
            };
        }
        let nrec = case.pieces.len();
        case.set("cut", rng.below(nrec + 1) as i64);
        // transport plan: permutation with repetitions and drops
        let mut plan: Vec<usize> = (0..nrec).collect();
        match rng.below(4) {
            0 => rng.shuffle(&mut plan),
            1 => {
                plan = (0..rng.range(0, nrec + 3)).map(|_| rng.below(nrec.max(1))).collect();
                if nrec == 0 {
                    plan.clear();
                }
            }
            2 => {
                plan.reverse();
                if nrec > 0 {
                    plan.push(rng.below(nrec));
                }
            }
            _ => {
                plan.retain(|_| rng.chance(2, 3));
                rng.shuffle(&mut plan);
            }
        }
        case.strs.insert("plan".into(), serde_json::to_string(&plan).unwrap());
        // the uninterrupted and the reordered runs arrive under a seeded delivery plan; the
        // per-record reference runs are whole-buffer
        let len = case.stream().len() + case.pieces.len();
        case.delivery = gen_delivery(rng, len);
        if rng.chance(1, 3) {
            // ... and are written to a sink that takes a few bytes at a time
            case.out = gen_sink_garnish(rng, 400);
        }
        if giant_at.is_some() || large_at.is_some() {
            // (a MiB a byte at a time would only exhaust the event budget)
            case.delivery = Delivery {
                whole: true,
                ..Delivery::default()
            };
            case.out = SinkPlan::default();
        }
        case
    }

    fn check(&self, case: &Case, ctx: &mut Ctx) -> Option<Violation> {
        if classify(&case.opts) != Class::Stateless || case.opts.iter().flatten().any(|t| t.contains('&')) {
            ctx.stats.invalid = true;
            return None;
        }
        let recs = records(case);
        let n = recs.len();
        macro_rules! ok_run {
            ($input:expr) => {{
                let r = ctx.exec(ref_spec(case, $input));
                if !r.outcome.is_ok() {
                    ctx.stats.invalid = true;
                    ctx.jawk_panic = None;
                    ctx.stats.probe("skipped: a run failed or panicked");
                    return None;
                }
                r.obs.stdout
            }};
        }
        macro_rules! delivered_run {
            ($input:expr) => {{
                let r = ctx.exec(case_spec(case, $input));
                if let crate::run::Outcome::Abort(w) = &r.outcome {
                    return viol("C11.solo-sum", format!("run aborted by the simulator: {w}"));
                }
                if !r.outcome.is_ok() {
                    ctx.stats.invalid = true;
                    ctx.jawk_panic = None;
                    ctx.stats.probe("skipped: a run failed or panicked");
                    return None;
                }
                if r.obs.short_reads + r.obs.intr_reads > 0 {
                    ctx.stats.probe("run delivered in chunks / with EINTR");
                }
                r.obs.stdout
            }};
        }
        let h = ok_run!(b"");
        let mut bodies: Vec<Vec<u8>> = Vec::new();
        for r in &recs {
            let solo = ok_run!(&stream_of(&[*r]));
            if !solo.starts_with(&h) {
                return viol(
                    "C11.solo-sum",
                    format!("output for one record does not start with the output for the empty stream {}: {}", show(&h), show(&solo)),
                );
            }
            bodies.push(solo[h.len()..].to_vec());
        }
        // spelling: redeliveries of the same abstract record have the same body
        for i in 0..n {
            for j in 0..i {
                if recs[i].id.is_some() && recs[i].id == recs[j].id && recs[i].tag == "redelivery" {
                    ctx.stats.fault("record.redelivered-respelled", 1);
                    if bodies[i] != bodies[j] {
                        return viol(
                            "C11.spelling",
                            format!(
                                "two spellings of the same value produce different rows: {} -> {} but {} -> {}",
                                show(&recs[j].bytes.0),
                                show(&bodies[j]),
                                show(&recs[i].bytes.0),
                                show(&bodies[i])
                            ),
                        );
                    }
                    break;
                }
            }
        }
        let whole = delivered_run!(&stream_of(&recs));
        let mut expect = h.clone();
        for b in &bodies {
            expect.extend_from_slice(b);
        }
        if whole != expect {
            return viol(
                "C11.solo-sum",
                format!(
                    "output for {} records is not the concatenation of the outputs for each record alone (first difference at byte {}): {} vs {}",
                    n,
                    common_prefix(&whole, &expect),
                    show(&whole),
                    show(&expect)
                ),
            );
        }
        // restart at a record boundary
        let k = (case.param("cut").max(0) as usize).min(n);
        let a = ok_run!(&stream_of(&recs[..k]));
        let b = ok_run!(&stream_of(&recs[k..]));
        if k > 0 && k < n {
            ctx.stats.fault("consumer.restart-at-record-boundary", 1);
            ctx.stats.nontrivial = true;
        }
        if !b.starts_with(&h) {
            return viol("C11.restart", format!("restarted run does not start with the header: {}", show(&b)));
        }
        let mut joined = a.clone();
        joined.extend_from_slice(&b[h.len()..]);
        if joined != whole {
            return viol(
                "C11.restart",
                format!(
                    "stopping after {k} of {n} records and restarting on the rest changes the rows (first difference at byte {}): {} vs uninterrupted {}",
                    common_prefix(&joined, &whole),
                    show(&joined),
                    show(&whole)
                ),
            );
        }
        // redelivery / reordering
        let plan: Vec<usize> = case
            .strs
            .get("plan")
            .and_then(|s| serde_json::from_str::<Vec<usize>>(s).ok())
            .unwrap_or_default()
            .into_iter()
            .filter(|i| *i < n)
            .collect();
        let identity = plan.len() == n && plan.iter().enumerate().all(|(i, p)| i == *p);
        if !identity && n >= 1 {
            let permuted: Vec<&Piece> = plan.iter().map(|i| recs[*i]).collect();
            let out = delivered_run!(&stream_of(&permuted));
            let mut expect = h.clone();
            for i in &plan {
                expect.extend_from_slice(&bodies[*i]);
            }
            ctx.stats.fault("upstream.reorder-or-redeliver", 1);
            if n >= 2 {
                ctx.stats.nontrivial = true;
            }
            if out != expect {
                return viol(
                    "C11.redelivery",
                    format!(
                        "delivering the records in order {plan:?} does not permute/repeat the rows accordingly (first difference at byte {}): {} vs {}",
                        common_prefix(&out, &expect),
                        show(&out),
                        show(&expect)
                    ),
                );
            }
        }
        if has_opt(&case.opts, "--regular-expression-cache-size") {
            ctx.stats.probe("regex cache size set");
        }
        if n >= 64 {
            ctx.stats.probe("long history (>= 64 records)");
        }
        None
    }
}
