//! C18 — invalid configurations are rejected before any input is read or output written.

use super::{Budget, Property, ShrinkCaps};
use crate::case::*;
use crate::common::*;
use crate::funcs;
use crate::gen::*;
use crate::rng::Rng;
use crate::run::*;
use crate::world::{ErrKind, Fault, FilePlan};

pub struct C18;

fn is_select(o: &[String]) -> bool {
    matches!(o[0].as_str(), "--select" | "--choose" | "-c") && o.len() == 2
}

/// (option index, is_select) of every option that carries an expression
fn expr_options(opts: &[Vec<String>]) -> Vec<usize> {
    let mut v = Vec::new();
    for (i, o) in opts.iter().enumerate() {
        if is_select(o)
            || o[0].starts_with("--filter=")
            || o[0].starts_with("--split-by=")
            || o[0].starts_with("--sort-by=")
            || o[0].starts_with("--group-by=")
            || (o[0] == "--set" && o.len() == 2 && o[1].find('=').map_or(false, |p| p > 0 && p + 1 < o[1].len()))
        {
            v.push(i);
        }
    }
    v
}

/// split an expression-carrying option into (prefix, expression, suffix)
fn split_expr(o: &[String]) -> (String, String, String) {
    if is_select(o) {
        // EXPR=name (names are c<i> / plain words, so the last '=' separates)
        let t = &o[1];
        match t.rfind('=') {
            Some(p) if !t[p..].contains(')') && !t[p..].contains('"') => {
                (String::new(), t[..p].to_string(), t[p..].to_string())
            }
            _ => (String::new(), t.clone(), String::new()),
        }
    } else if o[0] == "--set" {
        let t = &o[1];
        let p = t.find('=').unwrap_or(0);
        (t[..=p].to_string(), t[p + 1..].to_string(), String::new())
    } else if o[0].starts_with("--sort-by=") {
        let t = &o[0];
        let p = t.find('=').unwrap();
        let body = &t[p + 1..];
        // a direction suffix such as =DESC
        for d in ["=DESC", "=desc", "=ASC", "=asc"] {
            if let Some(b) = body.strip_suffix(d) {
                return (t[..=p].to_string(), b.to_string(), d.to_string());
            }
        }
        (t[..=p].to_string(), body.to_string(), String::new())
    } else {
        let t = &o[0];
        let p = t.find('=').unwrap();
        (t[..=p].to_string(), t[p + 1..].to_string(), String::new())
    }
}

fn join_expr(o: &[String], prefix: &str, expr: &str, suffix: &str) -> Vec<String> {
    if is_select(o) || o[0] == "--set" {
        vec![o[0].clone(), format!("{prefix}{expr}{suffix}")]
    } else {
        vec![format!("{prefix}{expr}{suffix}")]
    }
}

impl Property for C18 {
    fn id(&self) -> &'static str {
        "C18"
    }
    fn level(&self) -> &'static str {
        "exploration"
    }
    fn rule(&self) -> &'static str {
        "A scenario = a valid configuration from the swarm grammar (verified: the same world runs Ok) plus exactly one corruption that is invalid by construction: final ')' of a call dropped, unmatched '(' added, unknown function name, arity min-1 / max+1 from the scraped function table, trailing garbage after a complete expression (also one stray character glued to a call), an expression cut to length zero, a literal or /name/ reference that lost its closing character, sort direction other than ASC/DESC, --set without '=', with an empty name, duplicated, or duplicated with a same-named definition of the other kind in between, JSON-only options with csv/text, text-only options with json/csv, csv without --select, csv or --headers with --group-by/--merge; in every option position and output style. World: a non-empty input waiting on stdin or, in a third of the scenarios, in two file arguments behind the opener seam (hook H2); in half of the scenarios hostile stubs (every read and write fails, opening the second file fails). Oracle: go returns Err and the recorded seam history of the run is empty (stdin factory not called, no file opened, no read, no write on either sink). evaluations = jawk executions; non-trivial = the corrupted configuration was executed (all scenarios that pass the validity pre-check); distinct = distinct (corruption kind, option position, output style, hostile?) combinations hashed into the abstract trace. Round 7 kinds: duplicate --set re-spelled with blanks around the name, stray quote characters before/after a complete call or literal, a path running into an unterminated string, a direction glued to a selection, an index step beyond 2^64."
    }
    fn assumptions(&self) -> Vec<String> {
        vec![
            "arguments that clap itself rejects never reach go; they are exercised at the process level under C20".into(),
            "file arguments are observed through hook H2 (the opener of input files); the existence test jawk performs on a path (stat) is not an event".into(),
            "each corruption is invalid by construction (and observed to be rejected by the pinned tree)".into(),
        ]
    }
    fn shrink_caps(&self) -> ShrinkCaps {
        ShrinkCaps {
            drop_pieces: true,
            simplify_records: true,
            shrink_raw: true,
            drop_opts: true,
        }
    }
    fn process_level(&self) -> bool {
        true
    }
    fn budget(&self, tier: Tier) -> Budget {
        match tier {
            Tier::Quick => Budget {
                seconds: 60,
                max_cases: 400_000,
            },
            Tier::Thorough => Budget {
                seconds: 300,
                max_cases: 10_000_000,
            },
        }
    }

    fn generate(&self, rng: &mut Rng, _tier: Tier) -> Case {
        let mut case = Case::new("C18", "corrupt");
        let w = StreamWish::clean(4);
        case.pieces = gen_stream(rng, &w);
        if case.pieces.is_empty() {
            case.pieces.push(Piece::rec(b"{\"id\":1}".to_vec(), 0));
        }
        let mut wish = PipeWish::any();
        wish.allow_corpus = false;
        let pipe = gen_pipe(rng, &wish);
        case.opts = pipe.opts;
        if rng.chance(1, 3) {
            case.opts.push(policy_opt(*rng.pick(&[Policy::Panic, Policy::Stderr, Policy::Stdout])));
        }
        case.set("hostile", i64::from(rng.chance(1, 2)));
        // the non-empty input waits on stdin or in 1..2 file arguments (hook H2: opening or
        // reading them would show in the event history)
        case.set("on_files", i64::from(rng.chance(1, 3)));
        // one scenario in 25 is also put to the real executable, whose calls on fds 0-2 the
        // shim logs without changing them
        case.set("process", i64::from(rng.chance(1, 25)));
        let base = serde_json::to_string(&case.opts).unwrap();
        case.strs.insert("base_opts".into(), base);
        let mut needs: Vec<String> = Vec::new();
        let mut forbids: Vec<String> = Vec::new();
        let style = pipe.style;
        let exprs = expr_options(&case.opts);
        let kind: &str;
        // choose a corruption; fall back to one that is always possible
        let choice = rng.below(34);
        let fresh_position = |rng: &mut Rng, expr: &str| -> Vec<String> {
            match rng.below(6) {
                0 => vec![format!("--filter={expr}")],
                1 => vec![format!("--split-by={expr}")],
                2 => vec![format!("--sort-by={expr}")],
                3 => vec![format!("--group-by={expr}")],
                4 => vec!["--set".into(), format!("@zz={expr}")],
                _ => vec!["--select".into(), format!("{expr}=zz")],
            }
        };
        let replace_or_add = |case: &mut Case, o: Vec<String>| {
            // an option that may appear only once replaces the existing one
            let key = o[0].split('=').next().unwrap().to_string();
            if key != "--select" && key != "--set" && key != "--sort-by" {
                case.opts.retain(|x| x[0].split('=').next().unwrap() != key);
                if key == "--group-by" {
                    case.opts.retain(|x| x[0] != "--merge" && x[0] != "--headers" && x[0] != "--output-style=csv");
                }
            }
            case.opts.push(o);
        };
        match choice {
            0 | 1 if !exprs.is_empty() => {
                // drop the final ')' or add an unmatched '('
                let with_call: Vec<usize> = exprs
                    .iter()
                    .copied()
                    .filter(|i| split_expr(&case.opts[*i]).1.ends_with(')'))
                    .collect();
                if with_call.is_empty() {
                    let o = fresh_position(rng, "(size .");
                    needs.push(o.last().unwrap().clone());
                    replace_or_add(&mut case, o);
                    kind = "dropped-paren";
                } else {
                    let i = *rng.pick(&with_call);
                    let (p, e, s) = split_expr(&case.opts[i]);
                    let e2 = if choice == 0 {
                        kind = "dropped-paren";
                        e[..e.len() - 1].to_string()
                    } else {
                        kind = "extra-paren";
                        format!("({e}")
                    };
                    let o = join_expr(&case.opts[i], &p, &e2, &s);
                    needs.push(o.last().unwrap().clone());
                    case.opts[i] = o;
                }
            }
            2 if rng.chance(1, 4) => {
                // the dot-call shorthand with dots too many in front of a name that exists
                let e = *rng.pick(&["(..size)", "(...size)", "(..string?)", "(..len)", "(map .arr (..size))", "(. .size)"]);
                let o = fresh_position(rng, e);
                needs.push(o.last().unwrap().clone());
                replace_or_add(&mut case, o);
                kind = "unknown-function";
            }
            2 => {
                let name = format!("zz_nope_{}", rng.below(100));
                let o = fresh_position(rng, &format!("({name} . 1)"));
                needs.push(o.last().unwrap().clone());
                replace_or_add(&mut case, o);
                kind = "unknown-function";
            }
            3 | 4 => {
                let fs: Vec<&funcs::Func> = funcs::funcs()
                    .iter()
                    .filter(|f| !funcs::excluded_name(f.name))
                    .filter(|f| if choice == 3 { f.min >= 1 } else { f.max != usize::MAX })
                    .collect();
                if fs.is_empty() {
                    let o = fresh_position(rng, "(zz_nope . 1)");
                    needs.push(o.last().unwrap().clone());
                    replace_or_add(&mut case, o);
                    kind = "unknown-function";
                } else {
                    let f = *rng.pick(&fs);
                    let mut names = vec![f.name];
                    names.extend_from_slice(f.aliases);
                    let name = *rng.pick(&names);
                    let n = if choice == 3 { f.min - 1 } else { f.max + 1 };
                    let args: Vec<&str> = (0..n).map(|_| *rng.pick(&[".", "1", "\"a\"", ".s"])).collect();
                    let o = fresh_position(rng, &format!("({name} {})", args.join(" ")));
                    needs.push(o.last().unwrap().clone());
                    replace_or_add(&mut case, o);
                    kind = if choice == 3 { "arity-minus-one" } else { "arity-plus-one" };
                }
            }
            5 if rng.chance(1, 3) => {
                // junk, then a well-formed literal (the error must not be forgotten when
                // something parsable follows it)
                let e = *rng.pick(&["x true", "hello 1", "(= .a *\"x\")", "x 1", "?? null", "(size * [1])", "y \"s\""]);
                let o = fresh_position(rng, e);
                needs.push(o.last().unwrap().clone());
                replace_or_add(&mut case, o);
                kind = "leading-garbage";
            }
            5 if !exprs.is_empty() => {
                let i = *rng.pick(&exprs);
                let (p, e, s) = split_expr(&case.opts[i]);
                let o = join_expr(&case.opts[i], &p, &format!("{e} xx"), &s);
                needs.push(o.last().unwrap().clone());
                case.opts[i] = o;
                kind = "trailing-garbage";
            }
            14 | 15
                if exprs
                    .iter()
                    .any(|i| split_expr(&case.opts[*i]).1.ends_with(')')) =>
            {
                // one stray character directly after a complete call (no whitespace): an
                // extra closing bracket or a letter. (After `.key` a letter would merely
                // extend the key, so only calls are corrupted this way.)
                let calls: Vec<usize> = exprs
                    .iter()
                    .copied()
                    .filter(|i| split_expr(&case.opts[*i]).1.ends_with(')'))
                    .collect();
                let i = *rng.pick(&calls);
                let (p, e, s) = split_expr(&case.opts[i]);
                let g = *rng.pick(&[")", "]", "}", "x", ",", ";", "!"]);
                let o = join_expr(&case.opts[i], &p, &format!("{e}{g}"), &s);
                needs.push(o.last().unwrap().clone());
                case.opts[i] = o;
                kind = "glued-garbage";
            }
            19 | 20
                if exprs.iter().any(|i| {
                    let e = split_expr(&case.opts[*i]).1;
                    e.len() >= 2 && (e.ends_with('/') || e.ends_with('"') || e.ends_with(']') || e.ends_with('}'))
                }) =>
            {
                // truncation by one character where that is invalid by construction: the
                // closing slash of a /name/ reference, the closing quote or bracket of a literal
                let c: Vec<usize> = exprs
                    .iter()
                    .copied()
                    .filter(|i| {
                        let e = split_expr(&case.opts[*i]).1;
                        e.len() >= 2 && (e.ends_with('/') || e.ends_with('"') || e.ends_with(']') || e.ends_with('}'))
                    })
                    .collect();
                let i = *rng.pick(&c);
                let (p, e, s) = split_expr(&case.opts[i]);
                let o = join_expr(&case.opts[i], &p, &e[..e.len() - 1], &s);
                needs.push(o.last().unwrap().clone());
                case.opts[i] = o;
                kind = "dropped-closer";
            }
            21 | 22 => {
                // "=something" after a complete filter / split / group expression: only a
                // selection may be followed by "=name", only a sort key by "=direction"
                let e = *rng.pick(&["(> .n 0)", ".g", "(size .arr)", ".obj"]);
                let g = *rng.pick(&["=big", " =DESC", "=ASC", "= x", "=c0"]);
                let o = match rng.below(3) {
                    0 => vec![format!("--filter={e}{g}")],
                    1 => vec![format!("--split-by={e}{g}")],
                    _ => vec![format!("--group-by={e}{g}")],
                };
                needs.push(o[0].clone());
                replace_or_add(&mut case, o);
                kind = "equals-garbage";
            }
            23 => {
                // text output with --headers but without any selection
                case.opts.retain(|o| {
                    !(is_select(o)
                        || o[0].starts_with("--output-style")
                        || o[0] == "-o"
                        || o[0].starts_with("--style")
                        || o[0] == "--utf8-strings"
                        || o[0] == "--headers")
                });
                case.opts.push(vec!["-o".into(), "text".into()]);
                case.opts.push(vec!["--headers".into()]);
                needs.push("--headers".into());
                needs.push("text".into());
                forbids.push("--select".into());
                forbids.push("--choose".into());
                forbids.push("-c".into());
                kind = "text-headers-without-select";
            }
            24 | 25 => {
                // an index step that lost its digits: .arr#0 cut right after the #
                let e = *rng.pick(&[".arr#", ".obj.a#", "^.arr#", ".arr#0#"]);
                let o = fresh_position(rng, e);
                needs.push(o.last().unwrap().clone());
                replace_or_add(&mut case, o);
                kind = "dangling-index";
            }
            26 => {
                // a duplicate --set whose second copy spells the same name with blanks around it
                let name = format!("pdup{}", rng.below(10));
                let mac = rng.chance(1, 3);
                let at = if mac { "@" } else { "" };
                let (v1, v2) = if mac { ("(+ . 1)", ".") } else { ("1", "2") };
                let padded = match rng.below(3) {
                    0 => format!("{at}{name} ={v1}"),
                    1 => format!(" {at}{name}={v1}"),
                    _ => format!("{at}{name}  ={v1}"),
                };
                let plain = format!("{at}{name}={v2}");
                let seq = if rng.chance(1, 2) { vec![padded, plain] } else { vec![plain, padded] };
                for v in &seq {
                    case.opts.push(vec!["--set".into(), v.clone()]);
                    needs.push(v.clone());
                }
                kind = "respelled-duplicate-set";
            }
            27 => {
                // quote characters that a shell would have eaten: in front of or behind a
                // complete call or literal
                let e = *rng.pick(&["(> .n 0)", "(size .arr)", "(len .s)", "\"k\"", "5"]);
                let q = *rng.pick(&["'", "''", "\"", "`"]);
                let v = if rng.chance(1, 3) { format!("{q}{e}") } else { format!("{e}{q}") };
                let o = fresh_position(rng, &v);
                needs.push(o.last().unwrap().clone());
                replace_or_add(&mut case, o);
                kind = "stray-quote";
            }
            28 => {
                // a path that goes on into a string that never ends
                let e = *rng.pick(&[".s.\"first", ".\"o", ".obj.\"a\\", ".obj.a.\"", "(size .arr).\"x", ".arr#0.\"k"]);
                let o = fresh_position(rng, e);
                needs.push(o.last().unwrap().clone());
                replace_or_add(&mut case, o);
                kind = "unterminated-string-step";
            }
            29 => {
                // a sort direction glued to a selection that ends by itself
                let e = *rng.pick(&["(size .arr)", "\"k\"", "5", "(len .s)", "[1]"]);
                let d = *rng.pick(&["DESC", "ASC", "asc", "desc", "==DESC"]);
                let o = vec![format!("--sort-by={e}{d}")];
                needs.push(o[0].clone());
                case.opts.push(o);
                kind = "glued-direction";
            }
            30 | 31 => {
                // an index step no machine integer holds
                let e = *rng.pick(&[
                    ".arr#18446744073709551616",
                    "#18446744073709551616",
                    ".arr#99999999999999999999",
                    ".obj.a#340282366920938463463374607431768211456",
                    "^.arr#18446744073709551616",
                    ".arr#0#18446744073709551617",
                ]);
                let o = fresh_position(rng, e);
                needs.push(o.last().unwrap().clone());
                replace_or_add(&mut case, o);
                kind = "overflowing-index";
            }
            32 | 33 => {
                // a plain --set whose value yields nothing where no input exists yet (the
                // pinned tree: "Empty value in ..."): a member of the input, an input-context
                // selector, an undefined variable - whatever else the configuration enables
                let v = *rng.pick(&[
                    ".a",
                    "&index",
                    "&index-in-file",
                    "(+ &started-at-line-number 1)",
                    ":zz_undefined",
                    "#0",
                    "&file-name",
                    "(get . \"a\")",
                    "&ended-at-char-number",
                    "(stringify &index)",
                ]);
                if rng.chance(1, 4) {
                    // ... or a name that an earlier --set defines: definitions do not see
                    // each other when they are calculated
                    let (d, u) = if rng.chance(1, 2) { ("evb=1", "evu=:evb") } else { ("@evm=5", "evu=(* 2 @evm)") };
                    case.opts.push(vec!["--set".into(), d.into()]);
                    case.opts.push(vec!["--set".into(), u.into()]);
                    needs.push(d.into());
                    needs.push(u.into());
                } else {
                    let o = vec!["--set".to_string(), format!("ev{}={v}", rng.below(10))];
                    needs.push(o[1].clone());
                    case.opts.push(o);
                }
                if rng.chance(1, 2) && !has_opt(&case.opts, "--regular-expression-cache-size") {
                    case.opts.push(vec![format!("--regular-expression-cache-size={}", rng.range(1, 8))]);
                }
                kind = "empty-set-value";
            }
            16 if !exprs.is_empty() => {
                // truncation to nothing: the expression is cut to length zero
                let i = *rng.pick(&exprs);
                let (p, _e, s) = split_expr(&case.opts[i]);
                let o = join_expr(&case.opts[i], &p, "", &s);
                needs.push(o.last().unwrap().clone());
                case.opts[i] = o;
                kind = "emptied-expression";
            }
            17 => {
                let o = fresh_position(rng, "");
                needs.push(o.last().unwrap().clone());
                replace_or_add(&mut case, o);
                kind = "emptied-expression";
            }
            18 => {
                // a duplicate --set whose two copies are separated by a definition of the
                // other kind with the same name (x, @x, x  or  @x, x, @x)
                let name = format!("idup{}", rng.below(10));
                let (a, m) = (format!("{name}=1"), format!("@{name}=(+ . 1)"));
                let seq: Vec<String> = if rng.chance(1, 2) {
                    vec![a.clone(), m.clone(), format!("{name}=2")]
                } else {
                    vec![m.clone(), a.clone(), format!("@{name}=(- . 1)")]
                };
                for v in &seq {
                    case.opts.push(vec!["--set".into(), v.clone()]);
                    needs.push(v.clone());
                }
                kind = "interleaved-duplicate-set";
            }
            6 => {
                let o = vec![format!("--sort-by=.n={}", rng.pick(&["UP", "DOWN", "descending", "A SC", "1"]))];
                needs.push(o[0].clone());
                case.opts.push(o);
                kind = "bad-direction";
            }
            7 => {
                let o = vec!["--set".to_string(), (*rng.pick(&["novalue", "=1", "@=(. )", " =2"])).to_string()];
                needs.push(o[1].clone());
                case.opts.push(o);
                kind = "malformed-set";
            }
            8 => {
                let name = format!("dup{}", rng.below(10));
                let a = format!("{name}=1");
                let b = format!("{name}=2");
                case.opts.push(vec!["--set".into(), a.clone()]);
                if rng.chance(1, 2) {
                    // another definition of the same kind in between
                    case.opts.push(vec!["--set".into(), format!("between{}=5", rng.below(10))]);
                }
                case.opts.push(vec!["--set".into(), b.clone()]);
                needs.push(a);
                needs.push(b);
                kind = "duplicate-set";
            }
            9 => {
                // JSON-only option with csv/text, or text-only option with json/csv
                if style == Style::Json {
                    // (also with exactly the value the option has when it is not given)
                    let o = vec![(*rng.pick(&[
                        "--headers",
                        "--items-seperator=;",
                        "--null-keyword=NIL",
                        "--string-prefix=<",
                        "--null-keyword=null",
                        "--true-keyword=true",
                        "--false-keyword=false",
                        "--string-prefix=",
                        "--string-postfix=",
                        "--items-seperator=\t",
                        "--missing-value-keyword=",
                    ]))
                    .to_string()];
                    needs.push(o[0].clone());
                    forbids.push("--output-style".into());
                    forbids.push("-o".into());
                    case.opts.push(o);
                    kind = "text-option-with-json";
                } else {
                    case.opts.retain(|o| !o[0].starts_with("--style") && o[0] != "--utf8-strings");
                    let o = vec![(*rng.pick(&["--style=pretty", "--utf8-strings", "--style=consise"])).to_string()];
                    needs.push(o[0].clone());
                    needs.push(if style == Style::Csv { "--output-style=csv".into() } else { "text".into() });
                    case.opts.push(o);
                    kind = "json-option-with-text-or-csv";
                }
            }
            10 => {
                // text option with csv
                case.opts.retain(|o| {
                    !(o[0].starts_with("--output-style")
                        || o[0] == "-o"
                        || o[0].starts_with("--style")
                        || o[0] == "--utf8-strings"
                        || o[0] == "--headers"
                        || o[0].starts_with("--items-seperator")
                        || o[0].starts_with("--missing-value-keyword")
                        || o[0].starts_with("--string-p")
                        || o[0].starts_with("--group-by")
                        || o[0] == "--merge")
                });
                case.opts.push(vec!["--output-style=csv".into()]);
                case.opts.push(vec!["--select".into(), ".id=id".into()]);
                let o = vec![(*rng.pick(&["--headers", "--items-seperator=;", "--true-keyword=T"])).to_string()];
                needs.push(o[0].clone());
                needs.push("--output-style=csv".into());
                case.opts.push(o);
                kind = "text-option-with-csv";
            }
            11 => {
                // csv without selection
                case.opts.retain(|o| {
                    !(is_select(o)
                        || o[0].starts_with("--output-style")
                        || o[0] == "-o"
                        || o[0].starts_with("--style")
                        || o[0] == "--utf8-strings"
                        || o[0] == "--headers"
                        || o[0].starts_with("--items-seperator")
                        || o[0].starts_with("--missing-value-keyword")
                        || o[0].starts_with("--string-p"))
                });
                case.opts.push(vec!["--output-style=csv".into()]);
                needs.push("--output-style=csv".into());
                forbids.push("--select".into());
                forbids.push("--choose".into());
                forbids.push("-c".into());
                kind = "csv-without-select";
            }
            _ => {
                // csv or --headers with grouping
                case.opts.retain(|o| {
                    !(o[0].starts_with("--output-style")
                        || o[0] == "-o"
                        || o[0].starts_with("--style")
                        || o[0] == "--utf8-strings"
                        || o[0] == "--headers"
                        || o[0].starts_with("--items-seperator")
                        || o[0].starts_with("--missing-value-keyword")
                        || o[0].starts_with("--string-p")
                        || o[0].starts_with("--group-by")
                        || o[0] == "--merge")
                });
                case.opts.push(vec!["--select".into(), ".id=id".into()]);
                let g = if rng.chance(1, 2) {
                    "--group-by=.g".to_string()
                } else {
                    "--merge".to_string()
                };
                case.opts.push(vec![g.clone()]);
                needs.push(g);
                if rng.chance(1, 2) {
                    case.opts.push(vec!["--output-style=csv".into()]);
                    needs.push("--output-style=csv".into());
                } else {
                    case.opts.push(vec!["-o".into(), "text".into()]);
                    case.opts.push(vec!["--headers".into()]);
                    needs.push("--headers".into());
                    needs.push("text".into());
                }
                kind = "headers-with-grouping";
            }
        }
        case.strs.insert("corruption".into(), kind.to_string());
        case.strs.insert("needs".into(), serde_json::to_string(&needs).unwrap());
        case.strs.insert("forbids".into(), serde_json::to_string(&forbids).unwrap());
        case
    }

    fn check(&self, case: &Case, ctx: &mut Ctx) -> Option<Violation> {
        // the corruption must still be in place (the shrinker may have removed it)
        let needs: Vec<String> = case
            .strs
            .get("needs")
            .and_then(|s| serde_json::from_str(s).ok())
            .unwrap_or_default();
        let forbids: Vec<String> = case
            .strs
            .get("forbids")
            .and_then(|s| serde_json::from_str(s).ok())
            .unwrap_or_default();
        let tokens: Vec<&String> = case.opts.iter().flatten().collect();
        if needs.is_empty() || !needs.iter().all(|n| tokens.iter().any(|t| *t == n)) {
            ctx.stats.invalid = true;
            return None;
        }
        if case
            .opts
            .iter()
            .any(|o| forbids.iter().any(|f| o[0] == *f || o[0].starts_with(&format!("{f}="))))
        {
            ctx.stats.invalid = true;
            return None;
        }
        let kind = case.strs.get("corruption").cloned().unwrap_or_default();
        let hostile = case.param("hostile") == 1;
        let input = case.stream();
        // pre-check: the uncorrupted configuration is valid in a friendly world
        if let Some(base) = case.strs.get("base_opts").and_then(|s| serde_json::from_str::<Vec<Vec<String>>>(s).ok()) {
            let mut b = case.clone();
            b.opts = base;
            let r = ctx.exec(ref_spec(&b, &input));
            if !r.outcome.is_ok() {
                ctx.stats.invalid = true;
                ctx.jawk_panic = None;
                ctx.stats.probe("skipped: base configuration not valid");
                return None;
            }
        }
        let on_files = case.param("on_files") == 1;
        let mut empty_dirs: Option<String> = None;
        let mut spec = if on_files && input.len() % 5 == 0 {
            // nothing to read at all: every argument is a directory without a single file in
            // it (one of them nested). The configuration is as invalid as ever.
            let d = ctx.fresh_dir()?;
            let _ = std::fs::create_dir_all(format!("{d}/a/b"));
            let _ = std::fs::create_dir_all(format!("{d}/c"));
            ctx.stats.probe("the arguments are directories without any file");
            let mut spec = case_spec(case, b"");
            spec.argv.push("--".into());
            spec.argv.push(format!("{d}/a"));
            spec.argv.push(format!("{d}/c"));
            empty_dirs = Some(d);
            spec
        } else if on_files {
            let half = input.len() / 2;
            let datas = vec![input[..half].to_vec(), input[half..].to_vec()];
            let paths = ctx.fresh_paths(2);
            ctx.stats.probe("input waits in file arguments");
            let mut plans = vec![FilePlan::default(), FilePlan::default()];
            if hostile {
                plans[0].fault = Some(Fault { at: 0, kind: ErrKind::Other, sticky: true });
                plans[1].open_fails = Some(ErrKind::PermissionDenied);
            }
            sim_files_spec(case, &paths, &datas, &plans)
        } else {
            case_spec(case, &input)
        };
        spec.delivery.whole = false;
        if hostile {
            spec.hostile_stdin = true;
            spec.out.hostile = true;
            spec.err.hostile = true;
        }
        let r = ctx.exec(spec);
        if let Some(d) = &empty_dirs {
            let _ = std::fs::remove_dir_all(d);
        }
        ctx.stats.nontrivial = true;
        ctx.stats.fault(&format!("config.{kind}"), 1);
        if hostile {
            ctx.stats.probe("hostile stubs");
        }
        // fold what distinguishes scenarios of this property into the trace
        let pos = needs.first().map_or(String::new(), |n| n.split('=').next().unwrap_or("").to_string());
        ctx.fold_trace(crate::rng::hash_bytes(format!("{kind}|{pos}|{hostile}|{}", case.opts.len()).as_bytes()));
        match &r.outcome {
            Outcome::Clap(_) => {
                ctx.stats.invalid = true;
                ctx.stats.probe("skipped: rejected by clap before go");
                return None;
            }
            Outcome::Panic(..) => return None,
            Outcome::Abort(w) => return viol("C18.rejected", format!("run aborted by the simulator: {w}")),
            _ => {}
        }
        // Calling the stdin factory reads nothing (the real one is std::io::stdin()); opening
        // a *file* argument does touch the input (it can block or fail). Everything else -
        // any read, any write - counts.
        let touched: Vec<&crate::world::Event> = r
            .obs
            .events
            .iter()
            .filter(|e| !(e.chan == crate::world::Chan::Open && e.src == 0))
            // (listing a directory argument reads names, not input: tolerated like the factory call)
            .filter(|e| !matches!(e.chan, crate::world::Chan::ListOpen | crate::world::Chan::ListNext))
            .collect();
        if r.obs.events.len() > touched.len() {
            ctx.stats.probe("stdin factory called before the rejection (tolerated: nothing was read)");
        }
        if !touched.is_empty() {
            let e = touched[0];
            return viol(
                "C18.no-io",
                format!(
                    "invalid configuration ({kind}: {:?}) but I/O happened before it was rejected: first seam event {:?} (of {}), stdin opened {} times, stdout {}, stderr {}; result {}",
                    needs,
                    e.chan,
                    touched.len(),
                    r.obs.opened,
                    show(&r.obs.stdout),
                    show(&r.obs.stderr),
                    r.outcome.describe()
                ),
            );
        }
        if !r.outcome.is_err() {
            return viol(
                "C18.rejected",
                format!("invalid configuration ({kind}: {needs:?}) was accepted: {}", r.outcome.describe()),
            );
        }
        if case.param("process") == 1 {
            // the same guarantee for main(): no read(2) on fd 0 and no write(2) on fd 1
            match super::c20::run_watched(case, &input, ctx) {
                Err(e) => {
                    ctx.harness_error = Some(e);
                    return None;
                }
                Ok((status, out, err, reads, writes)) => {
                    ctx.stats.probe("process level: executable watched by the shim");
                    if status == Some(0) {
                        return viol("C18.rejected", format!("the executable accepted the invalid configuration ({kind}: {needs:?}): exit status 0"));
                    }
                    if reads > 0 || writes > 0 || !out.is_empty() {
                        return viol(
                            "C18.no-io",
                            format!(
                                "the executable did I/O before rejecting the invalid configuration ({kind}: {needs:?}): {reads} read call(s) on fd 0, {writes} write call(s) on fd 1, stdout {}",
                                show(&out)
                            ),
                        );
                    }
                    if err.is_empty() {
                        return viol("C18.rejected", format!("the executable rejected the configuration ({kind}) without a message on stderr"));
                    }
                }
            }
        }
        None
    }
}
