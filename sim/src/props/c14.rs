//! C14 — `--take` stops reading: jawk terminates on unbounded input when it can.

use super::{Budget, Property, ShrinkCaps};
use crate::case::*;
use crate::common::*;
use crate::gen::*;
use crate::rng::Rng;
use crate::run::*;
use crate::world::*;

pub struct C14;

const SLACK: usize = 128 * 1024;
const BUDGET_EXTRA: usize = 256 * 1024;

const TAILS: &[&str] = &[
    "{\"id\":@@,\"s\":\"a@@\",\"n\":@@,\"g\":\"a\",\"h\":@@,\"arr\":[@@,1,\"x\"],\"obj\":{\"a\":@@,\"b\":1},\"t\":true}\n",
    "{\"id\": @@, \"s\": \"ab\", \"n\": 1.5, \"g\": \"a\", \"arr\": [[@@], {\"k\": @@}], \"obj\": {\"a\": \"v@@\"}}\r\n",
    "[@@, 1, \"a@@\"]\n",
    "@@\n",
    "\"s@@\" ",
    "[@@]{\"id\":@@,\"arr\":[@@]}",
];

/// Is the T-th row (the first row for T = 0) really produced on this input? Decided by
/// comparing the rows of --take T' and --take T'-1 (T' = max(T, 1)); under the stdout
/// policy the comparison runs under `ignore`, because diagnostics on stdout are not rows.
fn row_reached(case: &Case, take: u64, run: &mut dyn FnMut(&Case) -> RunOut) -> bool {
    let t = take.max(1);
    let variant = |n: u64| {
        let mut c = case.clone();
        for o in c.opts.iter_mut() {
            if o[0].starts_with("--take=") {
                o[0] = format!("--take={n}");
            }
        }
        if policy_of(&c.opts) == Policy::Stdout {
            c.opts.retain(|o| !o[0].starts_with("--on-error"));
            c.opts.push(policy_opt(Policy::Ignore));
        }
        c
    };
    let a = run(&variant(t));
    let b = run(&variant(t - 1));
    a.outcome.is_ok() && b.outcome.is_ok() && a.obs.stdout != b.obs.stdout
}

/// Strings whose bytes are not UTF-8, correctly quoted (the parser's quote parity survives
/// them), alone or inside a container: malformed values a prefix may hold.
const BAD_UTF8_VALUES: &[&[u8]] = &[
    b"\"caf\xe9\"", b"{\"name\":\"caf\xe9\"}", b"{\"k\xff\":1}", b"[\"\xc3\"]", b"\"\xed\xa0\x80\"", b"{\"s\":\"a\x80b\",\"id\":1}",
];

/// A pipeline of which the harness knows, from how it is built, that every record of the
/// tail (TAILS[0] or TAILS[1]: objects with id, g = "a", a non-empty arr) yields at least
/// one row once `k` values have gone by - whatever the prefix held.
fn gen_known_pipeline(rng: &mut Rng, unique_ok: bool) -> (Vec<Vec<String>>, bool) {
    let mut opts: Vec<Vec<String>> = Vec::new();
    let k = rng.below(4);
    let mut twin = false;
    match rng.below(8) {
        0 => {}
        1 => opts.push(vec![format!("--filter=(>= &index {k})")]),
        2 => {
            opts.push(vec!["--set".into(), format!("min={k}")]);
            opts.push(vec!["--filter=(>= &index :min)".into()]);
        }
        3 => {
            opts.push(vec!["--split-by=.arr".into()]);
            opts.push(vec!["--filter=(= ^.g \"a\")".into()]);
            twin = true;
        }
        4 => {
            opts.push(vec!["--filter=(= .g \"a\")".into()]);
            twin = true;
        }
        5 => {
            opts.push(vec!["--set".into(), "unused=1".into()]);
            opts.push(vec![format!("--filter=(>= &index-in-file {k})")]);
        }
        6 => {
            opts.push(vec!["--split-by=.arr".into()]);
            opts.push(vec![format!("--filter=(>= &index {k})")]);
        }
        _ => opts.push(vec!["--only-objects-and-arrays".into()]),
    }
    if rng.chance(1, 3) {
        opts.push(vec!["--select".into(), ".=v".into()]);
        if rng.chance(1, 2) {
            opts.push(vec!["--select".into(), "&index=i".into()]);
        }
    }
    if unique_ok && rng.chance(1, 4) {
        opts.push(vec!["--unique".into()]);
    }
    match rng.below(6) {
        0 => opts.push(vec!["--style=pretty".into()]),
        1 => opts.push(vec!["--style=one-line".into()]),
        _ => {}
    }
    (opts, twin)
}

/// For a known pipeline: the T-th row must be there when the prefix is followed by M tail
/// records. (Only where nothing in front may legitimately end the run: no `panic` policy
/// with noise in the prefix.)
fn known_rule(case: &Case, ctx: &mut Ctx) -> Option<Violation> {
    if case.param("known") != 1 {
        return None;
    }
    let endless = case.endless.as_ref().or_else(|| case.files.iter().rev().find_map(|f| f.endless.as_ref()))?;
    let take: u64 = case.opts.iter().find_map(|o| o[0].strip_prefix("--take=").and_then(|v| v.parse().ok()))?;
    let skip: u64 = case
        .opts
        .iter()
        .find_map(|o| o[0].strip_prefix("--skip=").and_then(|v| v.parse().ok()))
        .unwrap_or(0);
    let noisy = case.pieces.iter().any(|p| matches!(p.kind, Kind::Garbage | Kind::Raw));
    if noisy && policy_of(&case.opts) == Policy::Panic {
        return None;
    }
    let m = (2 * (skip + take) + 6) as usize;
    let mut input = case.stream();
    for k in 0..m {
        input.extend_from_slice(&endless.record(k as u64));
    }
    let mut bad = false;
    let reached = row_reached(case, take, &mut |c: &Case| {
        let r = ctx.exec(ref_spec(c, &input));
        if !matches!(r.outcome, Outcome::Ok | Outcome::Err(..)) {
            bad = true;
        }
        r
    });
    if bad {
        ctx.jawk_panic = None;
        return None;
    }
    ctx.stats.probe("pipeline whose rows the harness knows by construction");
    if !reached {
        return viol(
            "C14.known-rows",
            format!(
                "every record of the tail qualifies by construction, yet the prefix followed by {m} tail records does not give --take={} its last row (skip {skip})",
                take.max(1)
            ),
        );
    }
    None
}

fn strip_limits(opts: &mut Vec<Vec<String>>) {
    opts.retain(|o| !(o[0].starts_with("--take") || o[0].starts_with("--skip") || o[0].starts_with("--limit")));
}

impl Property for C14 {
    fn id(&self) -> &'static str {
        "C14"
    }
    fn level(&self) -> &'static str {
        "exploration"
    }
    fn rule(&self) -> &'static str {
        "A scenario = streaming pipeline (any of --set, --split-by, --filter, --select, --unique, --only-objects-and-arrays, any output style) with --take T in 0..5 and --skip S in 0..3, a finite generated prefix (garbage allowed) followed by an endless tail of records produced by the stub on demand (tail records all distinct, or repeating with a period of 1..6 so that --unique or a filter dries the pipeline up after the limit), delivered raw (1-byte requests) or through a harness BufReader with seeded chunk limits and EINTR. The limit is verified to have been reached within M tail records (same output on M and 2M records, and the T-th row is there: the output differs from that of --take T-1); otherwise the scenario is skipped as invalid. Families: stdin (SimSource), 1..3 file arguments the last of which never ends plus an optional further file that must never be opened, a directory whose files are all the same endless stream (exactly one may be opened), and the real executable on a pipe fed by a producer thread. Reference = the same limited pipeline on the finite stream prefix+M records: d = input bytes consumed when its last stdout byte was written. The endless run must return (no simulator abort at d+256 KiB), with the same result kind and stdout, having pulled at most d+128 KiB through the stdin seam. One scenario in three is built from pipelines and tails of which the harness knows by construction that every tail record yields a row (filters on &index, on the parent of a split element, on a field the tail sets; a tail that is one value over and over): there the T-th row must exist on prefix + M tail records (C14.known-rows), independent of any reference run. The prefix may hold correctly quoted strings that are not UTF-8. evaluations = jawk executions; non-trivial = the endless run was executed against a saturated limiter; distinct = distinct abstract traces."
    }
    fn assumptions(&self) -> Vec<String> {
        vec![
            "consumption is counted at jawk's side of the stdin seam, so read-ahead of a harness-owned BufReader is not charged to jawk".into(),
            "a bounded number of bytes is read as: at most 128 KiB past the byte at which the fault-free finite run wrote its last row".into(),
            "file arguments: only the multi-file stop (C17.files-concat with --take) is covered in-process; a FIFO as file argument is not simulated".into(),
        ]
    }
    fn shrink_caps(&self) -> ShrinkCaps {
        ShrinkCaps {
            drop_pieces: true,
            simplify_records: true,
            shrink_raw: false,
            drop_opts: true,
        }
    }
    fn budget(&self, tier: Tier) -> Budget {
        match tier {
            Tier::Quick => Budget {
                seconds: 60,
                max_cases: 60_000,
            },
            Tier::Thorough => Budget {
                seconds: 600,
                max_cases: 1_000_000,
            },
        }
    }

    fn generate(&self, rng: &mut Rng, _tier: Tier) -> Case {
        let on_files = rng.chance(1, 3);
        let process = !on_files && rng.chance(1, 10);
        let mut case = Case::new(
            "C14",
            if on_files {
                "endless-file"
            } else if process {
                "endless-process"
            } else {
                "endless"
            },
        );
        let w = StreamWish {
            min_records: 0,
            max_records: 6,
            noise_eighths: if rng.chance(1, 3) { 2 } else { 0 },
            allow_touch: true,
            spell_level: 1,
            allow_big: false,
            schema_only: false,
        };
        case.pieces = gen_stream(rng, &w);
        if rng.chance(1, 12) {
            // a long history of malformed containers before the tail (whatever a reader
            // accumulates per error must not keep it from recognising the values that follow)
            let frag: &[u8] = *rng.pick(&[&b"[}"[..], b"{]", b"[x]", b"[1,]", b"{\"a\"}", b"[INFO] ", b"[[}"]);
            let times = rng.range(130, 300);
            let mut junk = Vec::new();
            for _ in 0..times {
                junk.extend_from_slice(frag);
                junk.push(b'\n');
            }
            case.pieces.push(Piece::raw(junk));
        }
        if rng.chance(1, 8) {
            // a correctly quoted string whose bytes are not UTF-8, somewhere in the prefix
            let at = rng.below(case.pieces.len() + 1);
            let mut v = vec![b'\n'];
            let b: &[u8] = *rng.pick(BAD_UTF8_VALUES);
            v.extend_from_slice(b);
            v.push(b'\n');
            case.pieces.insert(at, Piece::raw(v));
        }
        // the prefix must end in a separator so that the tail starts a fresh token
        case.pieces.push(Piece::gap(vec![b'\n']));
        let mut wish = PipeWish::any();
        wish.max_class = Class::Streaming;
        wish.allow_corpus = false;
        let mut pipe = gen_pipe(rng, &wish);
        strip_limits(&mut pipe.opts);
        let known = rng.chance(1, 3);
        let mut known_twin = false;
        if known {
            let (o, twin) = gen_known_pipeline(rng, true);
            pipe.opts = o;
            known_twin = twin;
            case.set("known", 1);
        }
        let t = rng.below(6);
        pipe.opts.push(vec![format!("--take={t}")]);
        if rng.chance(1, 2) {
            pipe.opts.push(vec![format!("--skip={}", rng.below(4))]);
        }
        if rng.chance(1, 4) {
            pipe.opts.push(policy_opt(*rng.pick(&[Policy::Stderr, Policy::Stdout, Policy::Panic])));
        }
        case.opts = pipe.opts;
        case.endless = Some(Endless {
            template: if known {
                TAILS[rng.below(2)].to_string()
            } else if rng.chance(2, 3) {
                TAILS[0].to_string()
            } else {
                (*rng.pick(TAILS)).to_string()
            },
            start: rng.below(1000) as u64,
            // one tail in four repeats itself: with --unique (or a filter on the counter) the
            // pipeline stops producing rows, and jawk must have stopped at the T-th row
            period: if rng.chance(1, 4) { Some(rng.range(1, 6) as u64) } else { None },
        });
        if known {
            let e = case.endless.as_mut().unwrap();
            if has_opt(&case.opts, "--unique") {
                e.period = None;
            } else if rng.chance(1, 2) {
                // the property's own tail: one value, over and over
                e.period = Some(1);
            }
            if known_twin && rng.chance(1, 2) {
                // the last value of the prefix is the tail's record with another group: it
                // does not qualify, the equal-looking values after it do
                let twin = String::from_utf8_lossy(&e.record(0)).replace("\"g\":\"a\"", "\"g\":\"b\"").replace("\"g\": \"a\"", "\"g\": \"b\"");
                let at = case.pieces.len() - 1;
                case.pieces.insert(at, Piece::raw(format!("\n{twin}").into_bytes()));
            }
        }
        if on_files && rng.chance(1, 4) {
            // a directory argument holding 2..3 files, every one of them the whole prefix
            // followed by the endless tail: whichever the file system lists first saturates
            // the limiter, and no other may be opened afterwards (listing order is not ours
            // to decide, so the scenario is built to be indifferent to it)
            let n = rng.range(2, 3);
            let len = case.stream().len();
            case.files = (0..n)
                .map(|_| {
                    let mut p = gen_file_plan(rng, len);
                    p.endless = case.endless.clone();
                    p
                })
                .collect();
            case.endless = None;
            case.set("as_dir", 1);
            if rng.chance(2, 3) {
                case.set("layout", *rng.pick(&[1i64, 2, 3, 3, 4]));
                case.dirs = (0..2)
                    .map(|_| {
                        let mut order: Vec<usize> = (0..n).collect();
                        rng.shuffle(&mut order);
                        DirPlan {
                            order,
                            ..DirPlan::default()
                        }
                    })
                    .collect();
            }
            return case;
        }
        if on_files {
            // the prefix is cut into 1..3 files at gaps; the last of them continues endlessly
            // and may be followed by a file that must never be opened
            let gaps: Vec<usize> = (0..case.pieces.len())
                .filter(|i| case.pieces[*i].kind == Kind::Gap)
                .collect();
            for _ in 0..rng.below(3) {
                if !gaps.is_empty() {
                    let i = *rng.pick(&gaps);
                    let l = case.pieces[i].bytes.0.len();
                    case.pieces[i].cut = Some(rng.below(l + 1));
                }
            }
            let n = case.cuts().len() + 1;
            let datas = split_files(&case);
            case.files = datas.iter().map(|d| gen_file_plan(rng, d.len())).collect();
            case.files[n - 1].endless = case.endless.take();
            case.set("sentinel", i64::from(rng.chance(1, 2)));
            return case;
        }
        case.delivery = gen_delivery(rng, case.stream().len());
        case.delivery.whole = false;
        if process {
            case.set("fifo", i64::from(rng.chance(1, 2)));
        }
        if !process && rng.chance(1, 6) {
            case.set("readfail", rng.range(1, 1000) as i64);
        }
        if !process && rng.chance(1, 6) {
            // the same world with a standard output that stops accepting bytes somewhere
            // inside the rows: the run must end (with an error), not keep reading
            case.set("sinkfail", rng.range(1, 1000) as i64);
        }
        case
    }

    fn check(&self, case: &Case, ctx: &mut Ctx) -> Option<Violation> {
        if let Some(v) = known_rule(case, ctx) {
            return Some(v);
        }
        if case.family == "endless-file" {
            return check_files(case, ctx);
        }
        let Some(endless) = &case.endless else {
            ctx.stats.invalid = true;
            return None;
        };
        if classify(&case.opts) == Class::Buffering || !endless.template.contains("@@") {
            ctx.stats.invalid = true;
            return None;
        }
        let take: Option<u64> = case.opts.iter().find_map(|o| {
            o[0].strip_prefix("--take=").and_then(|v| v.parse().ok())
        });
        let skip: u64 = case
            .opts
            .iter()
            .find_map(|o| o[0].strip_prefix("--skip=").and_then(|v| v.parse().ok()))
            .unwrap_or(0);
        let Some(take) = take else {
            ctx.stats.invalid = true;
            return None;
        };
        let prefix = case.stream();
        let m = (2 * (skip + take) + 6) as usize;
        let finite = |n: usize| {
            let mut v = prefix.clone();
            for k in 0..n {
                v.extend_from_slice(&endless.record(k as u64));
            }
            v
        };
        let in_m = finite(m);
        let in_2m = finite(2 * m);
        // 1. the tail keeps producing rows for the unlimited pipeline
        let mut unlimited = case.clone();
        strip_limits(&mut unlimited.opts);
        let u1 = ctx.exec(ref_spec(&unlimited, &in_m));
        let u2 = ctx.exec(ref_spec(&unlimited, &in_2m));
        if matches!(u1.outcome, Outcome::Panic(..) | Outcome::Clap(_)) {
            ctx.stats.invalid = true;
            ctx.jawk_panic = None;
            return None;
        }
        let _ = (&u1, &u2);
        // 2. the limited pipeline on M and 2M records: saturated limiter
        let l1 = ctx.exec(ref_spec(case, &in_m));
        let l2 = ctx.exec(ref_spec(case, &in_2m));
        if l1.obs.stdout != l2.obs.stdout || l1.outcome.class() != l2.outcome.class() {
            ctx.stats.invalid = true;
            ctx.stats.probe("skipped: limiter not saturated on M records");
            return None;
        }
        // ... and the limit was really reached within M records: the T-th row is there (the
        // output differs from that of --take T-1). A tail that stops producing rows before
        // that (a repeating tail under --unique, say) obliges jawk to nothing.
        if l1.outcome.is_ok() {
            let reached = row_reached(case, take, &mut |c: &Case| ctx.exec(ref_spec(c, &in_m)));
            if !reached {
                ctx.stats.invalid = true;
                ctx.stats.probe("skipped: the T-th row is never produced by this tail");
                return None;
            }
            if u2.obs.stdout.len() <= u1.obs.stdout.len() {
                ctx.stats.probe("tail stops producing rows after the limit was reached");
            }
        }
        // d = input consumed when the last stdout byte was written
        let d = if take == 0 && l1.outcome.is_ok() {
            let mut one = case.clone();
            for o in one.opts.iter_mut() {
                if o[0].starts_with("--take=") {
                    o[0] = "--take=1".into();
                }
            }
            let r = ctx.exec(ref_spec(&one, &in_m));
            let r2 = ctx.exec(ref_spec(&one, &in_2m));
            if r.obs.stdout != r2.obs.stdout {
                ctx.stats.invalid = true;
                return None;
            }
            consumed_when_out_reached(&r.obs.events, r.obs.stdout.len()).unwrap_or(0)
        } else {
            consumed_when_out_reached(&l1.obs.events, l1.obs.stdout.len()).unwrap_or(prefix.len())
        };
        // 3. the endless world
        let mut spec = case_spec(case, &prefix);
        spec.byte_budget = prefix.len().max(d) + BUDGET_EXTRA;
        spec.max_events = 2_000_000;
        let r = ctx.exec(spec);
        ctx.stats.nontrivial = true;
        ctx.stats.fault("endless-input", 1);
        if case.delivery.bufcap.is_some() {
            ctx.stats.probe("endless input through harness BufReader");
        }
        if skip > 0 {
            ctx.stats.probe("with --skip");
        }
        if take == 0 {
            ctx.stats.probe("--take=0");
        }
        if has_opt(&case.opts, "--split-by") || has_opt(&case.opts, "-b") {
            ctx.stats.probe("pipeline has --split-by");
        }
        if has_opt(&case.opts, "--select") || has_opt(&case.opts, "--choose") || has_opt(&case.opts, "-c") {
            ctx.stats.probe("pipeline has --select");
        }
        if has_opt(&case.opts, "--filter") {
            ctx.stats.probe("pipeline has --filter");
        }
        if has_opt(&case.opts, "--unique") {
            ctx.stats.probe("pipeline has --unique");
        }
        if has_opt(&case.opts, "--set") {
            ctx.stats.probe("pipeline has --set");
        }
        if let Outcome::Abort(why) = &r.outcome {
            return viol(
                "C14.terminates",
                format!(
                    "jawk keeps reading an endless input although --take={take} --skip={skip} was satisfied after {d} bytes: {why} (consumed {} bytes)",
                    r.obs.consumed
                ),
            );
        }
        if matches!(r.outcome, Outcome::Panic(..)) {
            return None;
        }
        if r.outcome.class() != l1.outcome.class() {
            return viol(
                "C14.terminates",
                format!(
                    "endless run returned {} but the finite reference returned {}",
                    r.outcome.describe(),
                    l1.outcome.describe()
                ),
            );
        }
        if r.outcome.is_ok() {
            let over = r.obs.consumed.saturating_sub(d);
            ctx.stats.probe(match over {
                0 => "overshoot past the last row's byte: 0",
                1 => "overshoot past the last row's byte: 1",
                2..=64 => "overshoot past the last row's byte: 2..64",
                65..=8192 => "overshoot past the last row's byte: 65..8192",
                _ => "overshoot past the last row's byte: > 8192",
            });
            if r.obs.consumed > d + SLACK {
                return viol(
                    "C14.bounded",
                    format!(
                        "jawk consumed {} bytes although the last row was complete after {d} bytes (allowance {SLACK})",
                        r.obs.consumed
                    ),
                );
            }
        }
        if r.obs.stdout != l1.obs.stdout {
            return viol(
                "C14.rows",
                format!(
                    "rows emitted before the early stop differ from the finite run: {} vs {}",
                    show(&r.obs.stdout),
                    show(&l1.obs.stdout)
                ),
            );
        }
        if case.family == "endless-process" {
            return check_process(case, &prefix, endless, d, &l1, ctx);
        }
        // the endless input breaks before the limit is reached: a read failure (that stays,
        // or goes away again) somewhere before the byte at which the last row was complete
        let rfrac = case.param("readfail");
        if rfrac > 0 && d > 0 && l1.outcome.is_ok() {
            let k = ((rfrac as usize - 1) * d) / 1000;
            let mut spec = case_spec(case, &prefix);
            spec.byte_budget = prefix.len().max(d) + BUDGET_EXTRA;
            spec.max_events = 2_000_000;
            spec.rfault = Some(Fault {
                at: k,
                kind: *[ErrKind::WouldBlock, ErrKind::Other, ErrKind::TimedOut, ErrKind::InvalidData]
                    .get((rfrac as usize) % 4)
                    .unwrap_or(&ErrKind::Other),
                sticky: rfrac % 2 == 0,
            });
            let f = ctx.exec(spec);
            ctx.stats.fault("endless-input.read-failure-before-the-limit", 1);
            if let Outcome::Abort(why) = &f.outcome {
                return viol(
                    "C14.terminates",
                    format!("after a read failure at byte {k} (before the limit was reached) jawk does not end the run: {why}"),
                );
            }
            if f.obs.rfault_delivered && f.outcome.is_ok() {
                return viol(
                    "C14.terminates",
                    format!("reading the endless input failed at byte {k}, before the limit was reached, but the run returned Ok"),
                );
            }
        }
        let frac = case.param("sinkfail");
        if frac > 0 && !l1.obs.stdout.is_empty() && l1.outcome.is_ok() {
            let k = ((frac as usize - 1) * l1.obs.stdout.len()) / 1000;
            let mut spec = case_spec(case, &prefix);
            spec.byte_budget = prefix.len().max(d) + BUDGET_EXTRA;
            spec.max_events = 2_000_000;
            if frac % 3 == 0 {
                // a sink that stops accepting bytes (Ok(0)) instead of failing
                spec.out.zero_at = Some(k);
            } else {
                spec.out.fail = Some(Fault {
                    at: k,
                    kind: ErrKind::BrokenPipe,
                    sticky: true,
                });
            }
            let f = ctx.exec(spec);
            ctx.stats.fault(if frac % 3 == 0 { "endless-input.sink-accepts-nothing" } else { "endless-input.failing-sink" }, 1);
            if let Outcome::Abort(why) = &f.outcome {
                return viol(
                    "C14.terminates",
                    format!("with a standard output that fails at byte {k} jawk keeps reading the endless input: {why} (consumed {} bytes)", f.obs.consumed),
                );
            }
            if f.obs.out_fault_delivered && f.outcome.is_ok() {
                return viol(
                    "C14.terminates",
                    format!("standard output failed at byte {k} but the run on the endless input returned Ok"),
                );
            }
        }
        None
    }
    fn process_level(&self) -> bool {
        true
    }
}

const PROC_SLACK: usize = 1024 * 1024;
const PROC_CAP: usize = 4 * 1024 * 1024;

/// The real executable with its standard input on a pipe that a producer thread keeps
/// filling (prefix, then the endless tail) until the pipe breaks, the child exits, or a cap
/// far beyond any read-ahead is reached. Real concurrency: how far the producer gets ahead
/// of jawk is the kernel's business (pipe capacity 64 KiB), so only termination, the exit
/// status, the rows and a generous bound on the bytes the producer could write are judged.
fn check_process(case: &Case, prefix: &[u8], endless: &Endless, d: usize, l1: &RunOut, ctx: &mut Ctx) -> Option<Violation> {
    use std::io::Write;
    let bin = super::c20::bin_path();
    if !bin.exists() {
        ctx.harness_error = Some(format!("process level needs {} (run ./check setup)", bin.display()));
        return None;
    }
    let outp = ctx.fresh_path("o");
    let errp = ctx.fresh_path("e");
    let (Ok(of), Ok(ef)) = (std::fs::File::create(&outp), std::fs::File::create(&errp)) else {
        ctx.harness_error = Some("cannot create output files".into());
        return None;
    };
    // half of the scenarios feed the endless stream through a FIFO named as a file argument
    // (a real file-system object read through jawk's real File + BufReader, no hook) instead
    // of standard input
    let fifo: Option<std::path::PathBuf> = if case.param("fifo") == 1 { Some(ctx.fresh_path("fifo")) } else { None };
    if let Some(f) = &fifo {
        let c = std::ffi::CString::new(f.to_string_lossy().as_bytes()).unwrap_or_default();
        // SAFETY: plain mkfifo(3) with a valid NUL-terminated path
        if unsafe { libc::mkfifo(c.as_ptr(), 0o600) } != 0 {
            ctx.harness_error = Some(format!("mkfifo {} failed", f.display()));
            return None;
        }
    }
    let mut cmd = std::process::Command::new(&bin);
    cmd.args(case.argv()).stdout(of).stderr(ef);
    match &fifo {
        Some(f) => {
            cmd.arg("--").arg(f).stdin(std::process::Stdio::null());
        }
        None => {
            cmd.stdin(std::process::Stdio::piped());
        }
    }
    let spawned = {
        let _shared = super::c20::SPAWN_LOCK.read().unwrap_or_else(std::sync::PoisonError::into_inner);
        cmd.spawn()
    };
    let mut child = match spawned {
        Ok(c) => c,
        Err(e) => {
            ctx.harness_error = Some(format!("cannot spawn {}: {e}", bin.display()));
            return None;
        }
    };
    let child_pipe = child.stdin.take();
    let head = prefix.to_vec();
    let en = endless.clone();
    let done = std::sync::Arc::new(std::sync::atomic::AtomicBool::new(false));
    let done2 = done.clone();
    let fifo2 = fifo.clone();
    let producer = std::thread::spawn(move || {
        use std::sync::atomic::Ordering;
        let mut written = 0usize;
        let mut k = 0u64;
        let mut buf = head;
        let mut pipe: Box<dyn Write> = match (child_pipe, fifo2) {
            (Some(p), _) => Box::new(p),
            (None, Some(path)) => {
                // a FIFO can be opened for writing only once a reader has it open: poll
                // without blocking until jawk opens it, the child is gone, or 20 s passed
                use std::os::unix::fs::OpenOptionsExt;
                use std::os::fd::AsRawFd;
                let start = std::time::Instant::now();
                let f = loop {
                    match std::fs::OpenOptions::new().write(true).custom_flags(libc::O_NONBLOCK).open(&path) {
                        Ok(f) => break Some(f),
                        Err(_) => {
                            if done2.load(Ordering::SeqCst) || start.elapsed().as_secs() > 20 {
                                break None;
                            }
                            std::thread::sleep(std::time::Duration::from_millis(1));
                        }
                    }
                };
                let Some(f) = f else { return 0 };
                // SAFETY: fcntl on a descriptor we own; switches it back to blocking writes
                unsafe {
                    let fl = libc::fcntl(f.as_raw_fd(), libc::F_GETFL);
                    libc::fcntl(f.as_raw_fd(), libc::F_SETFL, fl & !libc::O_NONBLOCK);
                }
                Box::new(f)
            }
            (None, None) => return 0,
        };
        loop {
            while buf.len() < 4096 {
                buf.extend_from_slice(&en.record(k));
                k += 1;
            }
            match pipe.write(&buf) {
                Ok(0) | Err(_) => break,
                Ok(n) => {
                    written += n;
                    buf.drain(..n);
                }
            }
            if written > PROC_CAP {
                break;
            }
        }
        written
    });
    let st = crate::driver::wait_limited(&mut child, std::time::Duration::from_secs(30));
    done.store(true, std::sync::atomic::Ordering::SeqCst);
    if let Some(f) = &fifo {
        // release a producer that is blocked in write() on a FIFO nobody reads any more
        let _ = std::fs::OpenOptions::new().read(true).custom_flags_nonblock().open(f);
    }
    let written = producer.join().unwrap_or(0);
    if let Some(f) = &fifo {
        let _ = std::fs::remove_file(f);
    }
    let out = std::fs::read(&outp).unwrap_or_default();
    let err = std::fs::read(&errp).unwrap_or_default();
    let _ = std::fs::remove_file(&outp);
    let _ = std::fs::remove_file(&errp);
    ctx.stats.runs += 1;
    ctx.stats.fault(if fifo.is_some() { "endless-input.process-fifo" } else { "endless-input.process-pipe" }, 1);
    ctx.stats.probe(match written.saturating_sub(d) {
        0..=8192 => "process: producer got <= 8 KiB ahead of the last row's byte",
        8193..=73728 => "process: producer got 8..72 KiB ahead (stdin buffer + pipe capacity)",
        _ => "process: producer got > 72 KiB ahead",
    });
    let Some(st) = st else {
        return viol(
            "C14.terminates",
            format!("the executable did not finish within 30 s on an endless standard input (producer wrote {written} bytes)"),
        );
    };
    if written > PROC_CAP {
        return viol(
            "C14.terminates",
            format!("the executable kept reading an endless standard input: the producer wrote {written} bytes although --take was satisfied after {d}"),
        );
    }
    if written > d + PROC_SLACK {
        return viol(
            "C14.bounded",
            format!("the producer could write {written} bytes although the last row was complete after {d} bytes"),
        );
    }
    if l1.outcome.is_ok() {
        if st.code() != Some(0) {
            return viol("C14.terminates", format!("the executable exited with {st} ({}) where in-process go succeeds", show(&err)));
        }
    } else if st.code() == Some(0) {
        return viol("C14.terminates", "the executable exited with 0 where in-process go fails".to_string());
    }
    // diagnostics on stdout name the file they come from
    let out = match &fifo {
        Some(f) => strip_paths(&out, &[f.to_string_lossy().to_string()]),
        None => out,
    };
    if out != l1.obs.stdout {
        return viol(
            "C14.rows",
            format!("rows of the executable on an endless pipe differ from the finite in-process run: {} vs {}", show(&out), show(&l1.obs.stdout)),
        );
    }
    None
}

/// The same property with the unbounded input arriving through a file argument (hook H2):
/// the prefix is spread over 1..3 simulated files, the last of which never ends; an
/// optional further file must never be opened.
fn check_files(case: &Case, ctx: &mut Ctx) -> Option<Violation> {
    if case.param("as_dir") == 1 {
        return check_dir(case, ctx);
    }
    let mut datas = split_files(case);
    if case.files.len() != datas.len() || classify(&case.opts) == Class::Buffering {
        ctx.stats.invalid = true;
        return None;
    }
    if case.opts.iter().flatten().any(|t| t.contains('&')) {
        ctx.stats.invalid = true;
        return None;
    }
    let last = datas.len() - 1;
    let Some(endless) = case.files[last].endless.clone() else {
        ctx.stats.invalid = true;
        return None;
    };
    if !endless.template.contains("@@") {
        ctx.stats.invalid = true;
        return None;
    }
    let take: Option<u64> = case.opts.iter().find_map(|o| o[0].strip_prefix("--take=").and_then(|v| v.parse().ok()));
    let skip: u64 = case
        .opts
        .iter()
        .find_map(|o| o[0].strip_prefix("--skip=").and_then(|v| v.parse().ok()))
        .unwrap_or(0);
    let Some(take) = take else {
        ctx.stats.invalid = true;
        return None;
    };
    let sentinel = case.param("sentinel") == 1;
    let mut plans = case.files.clone();
    if sentinel {
        // a further input whose open never returns (a FIFO nobody writes to): jawk has no
        // business touching it once the limit was reached in an earlier file
        datas.push(b"{\"id\":-7,\"s\":\"sentinel\",\"arr\":[1]}\n".to_vec());
        plans.push(FilePlan {
            open_blocks: true,
            ..FilePlan::default()
        });
    }
    let paths = ctx.fresh_paths(datas.len());
    let m = (2 * (skip + take) + 6) as usize;
    // the finite references stop with the file that will be endless: a further file can
    // contribute rows only after that one ended, which it never does
    let finite = |n: usize| {
        let mut d: Vec<Vec<u8>> = datas[..=last].to_vec();
        for k in 0..n {
            d[last].extend_from_slice(&endless.record(k as u64));
        }
        d
    };
    let ref_paths: Vec<String> = paths[..=last].to_vec();
    let mut fplans: Vec<FilePlan> = plans[..=last].to_vec();
    fplans[last].endless = None;
    let in_m = finite(m);
    let in_2m = finite(2 * m);
    let mut unlimited = case.clone();
    strip_limits(&mut unlimited.opts);
    let u1 = ctx.exec(sim_files_spec(&unlimited, &ref_paths, &in_m, &fplans));
    let u2 = ctx.exec(sim_files_spec(&unlimited, &ref_paths, &in_2m, &fplans));
    if matches!(u1.outcome, Outcome::Panic(..) | Outcome::Clap(_)) {
        ctx.stats.invalid = true;
        ctx.jawk_panic = None;
        return None;
    }
    let _ = &u2;
    let l1 = ctx.exec(sim_files_spec(case, &ref_paths, &in_m, &fplans));
    let l2 = ctx.exec(sim_files_spec(case, &ref_paths, &in_2m, &fplans));
    if l1.obs.stdout != l2.obs.stdout || l1.outcome.class() != l2.outcome.class() {
        ctx.stats.invalid = true;
        ctx.stats.probe("skipped: limiter not saturated on M records");
        return None;
    }
    if l1.outcome.is_ok() && !row_reached(case, take, &mut |c: &Case| ctx.exec(sim_files_spec(c, &ref_paths, &in_m, &fplans))) {
        ctx.stats.invalid = true;
        ctx.stats.probe("skipped: the T-th row is never produced by this tail");
        return None;
    }
    let prefix_len: usize = datas.iter().take(last + 1).map(Vec::len).sum();
    let d = if take == 0 && l1.outcome.is_ok() {
        let mut one = case.clone();
        for o in one.opts.iter_mut() {
            if o[0].starts_with("--take=") {
                o[0] = "--take=1".into();
            }
        }
        let r = ctx.exec(sim_files_spec(&one, &ref_paths, &in_m, &fplans));
        let r2 = ctx.exec(sim_files_spec(&one, &ref_paths, &in_2m, &fplans));
        if r.obs.stdout != r2.obs.stdout {
            ctx.stats.invalid = true;
            return None;
        }
        delivered_when_out_reached(&r.obs.events, r.obs.stdout.len()).unwrap_or(0)
    } else {
        delivered_when_out_reached(&l1.obs.events, l1.obs.stdout.len()).unwrap_or(prefix_len)
    };
    let mut spec = sim_files_spec(case, &paths, &datas, &plans);
    spec.files[last].byte_budget = prefix_len.max(d) + BUDGET_EXTRA;
    spec.max_events = 2_000_000;
    let r = ctx.exec(spec);
    ctx.stats.nontrivial = true;
    ctx.stats.fault("endless-input.file", 1);
    if sentinel {
        ctx.stats.probe("endless file followed by a further file");
    }
    if last > 0 {
        ctx.stats.probe("endless file preceded by finite files");
    }
    if let Outcome::Abort(why) = &r.outcome {
        return viol(
            "C14.terminates",
            format!(
                "jawk keeps reading an endless file although --take={take} --skip={skip} was satisfied after {d} bytes: {why} (devices delivered {} bytes)",
                r.obs.delivered
            ),
        );
    }
    if matches!(r.outcome, Outcome::Panic(..)) {
        return None;
    }
    if r.outcome.class() != l1.outcome.class() {
        return viol(
            "C14.terminates",
            format!("endless-file run returned {} but the finite reference returned {}", r.outcome.describe(), l1.outcome.describe()),
        );
    }
    if r.outcome.is_ok() {
        let over = r.obs.delivered.saturating_sub(d);
        ctx.stats.probe(match over {
            0 => "file devices: overshoot past the last row's byte: 0",
            1..=8192 => "file devices: overshoot past the last row's byte: 1..8192 (jawk's BufReader)",
            _ => "file devices: overshoot past the last row's byte: > 8192",
        });
        if r.obs.delivered > d + SLACK {
            return viol(
                "C14.bounded",
                format!("the file devices delivered {} bytes although the last row was complete after {d} bytes (allowance {SLACK})", r.obs.delivered),
            );
        }

    }
    if strip_paths(&r.obs.stdout, &paths) != strip_paths(&l1.obs.stdout, &paths) {
        return viol(
            "C14.rows",
            format!("rows emitted before the early stop differ from the finite run: {} vs {}", show(&r.obs.stdout), show(&l1.obs.stdout)),
        );
    }
    None
}

/// A directory argument whose files are all endless: exactly one of them may be opened.
fn check_dir(case: &Case, ctx: &mut Ctx) -> Option<Violation> {
    let n = case.files.len();
    if n < 2 || classify(&case.opts) == Class::Buffering || case.opts.iter().flatten().any(|t| t.contains('&')) {
        ctx.stats.invalid = true;
        return None;
    }
    let Some(endless) = case.files[0].endless.clone() else {
        ctx.stats.invalid = true;
        return None;
    };
    if !endless.template.contains("@@") || case.files.iter().any(|f| f.endless.as_ref() != Some(&endless)) {
        ctx.stats.invalid = true;
        return None;
    }
    let take: Option<u64> = case.opts.iter().find_map(|o| o[0].strip_prefix("--take=").and_then(|v| v.parse().ok()));
    let skip: u64 = case
        .opts
        .iter()
        .find_map(|o| o[0].strip_prefix("--skip=").and_then(|v| v.parse().ok()))
        .unwrap_or(0);
    let Some(take) = take else {
        ctx.stats.invalid = true;
        return None;
    };
    let prefix = case.stream();
    let dir = ctx.fresh_path("d").to_string_lossy().to_string();
    if std::fs::create_dir_all(&dir).is_err() {
        ctx.harness_error = Some(format!("cannot create {dir}"));
        return None;
    }
    // layout 0: one flat directory listed by the file system; otherwise (hook H3) the files
    // are spread over directories - flat, a file then a directory, a sub-directory, two
    // directories - whose listings the simulator owns, in a seeded order. Every file is the
    // same endless stream, so whichever jawk reads first reaches the limit.
    let lay = if case.param("layout") > 0 { Some(lay_out(&dir, n, case.param("layout"), 0)) } else { None };
    let paths: Vec<String> = match &lay {
        Some(l) => l.paths.clone(),
        None => (0..n).map(|i| format!("{dir}/part{i}.json")).collect(),
    };
    if lay.is_some() {
        ctx.stats.probe("endless files in directories listed by the simulator (flat, nested, several)");
    }
    let m = (2 * (skip + take) + 6) as usize;
    let finite = |k: usize| {
        let mut v = prefix.clone();
        for i in 0..k {
            v.extend_from_slice(&endless.record(i as u64));
        }
        v
    };
    let mut fplans = case.files.clone();
    for p in fplans.iter_mut() {
        p.endless = None;
    }
    // single-file references decide validity and d (the directory must behave like its first file)
    let one_m = vec![finite(m)];
    let one_2m = vec![finite(2 * m)];
    let mut unlimited = case.clone();
    strip_limits(&mut unlimited.opts);
    let res = (|| {
        let u1 = ctx.exec(sim_files_spec(&unlimited, &paths[..1], &one_m, &fplans[..1]));
        let u2 = ctx.exec(sim_files_spec(&unlimited, &paths[..1], &one_2m, &fplans[..1]));
        if matches!(u1.outcome, Outcome::Panic(..) | Outcome::Clap(_)) {
            ctx.stats.invalid = true;
            ctx.jawk_panic = None;
            return None;
        }
        if u1.outcome.class() == "err" || u2.obs.stdout.len() <= u1.obs.stdout.len() {
            // also skips --on-error=panic on a noisy prefix: which file reports it depends on the listing
            ctx.stats.invalid = true;
            ctx.stats.probe("skipped: tail produces no rows for this pipeline");
            return None;
        }
        let l1 = ctx.exec(sim_files_spec(case, &paths[..1], &one_m, &fplans[..1]));
        let l2 = ctx.exec(sim_files_spec(case, &paths[..1], &one_2m, &fplans[..1]));
        if l1.obs.stdout != l2.obs.stdout || !l1.outcome.is_ok() || !l2.outcome.is_ok() || take == 0 {
            ctx.stats.invalid = true;
            ctx.stats.probe("skipped: limiter not saturated on M records");
            return None;
        }
        // the limiter must really have said Break inside the first file: otherwise (e.g. --unique
        // swallowing the rows of identical later files) nothing forbids opening the next one
        let d = delivered_when_out_reached(&l1.obs.events, l1.obs.stdout.len()).unwrap_or(prefix.len());
        let datas: Vec<Vec<u8>> = (0..n).map(|_| prefix.clone()).collect();
        let mut spec = match &lay {
            Some(l) => sim_layout_spec(case, l, &datas, &case.files, &case.dirs),
            None => sim_dir_spec(case, &dir, &paths, &datas, &case.files),
        };
        for f in spec.files.iter_mut() {
            f.byte_budget = prefix.len().max(d) + BUDGET_EXTRA;
        }
        spec.max_events = 2_000_000;
        let r = ctx.exec(spec);
        ctx.stats.nontrivial = true;
        ctx.stats.fault("endless-input.directory", 1);
        if let Outcome::Abort(why) = &r.outcome {
            return viol(
                "C14.terminates",
                format!("jawk keeps reading the endless files of a directory although --take={take} --skip={skip} was satisfied after {d} bytes: {why}"),
            );
        }
        if matches!(r.outcome, Outcome::Panic(..)) {
            return None;
        }
        if !r.outcome.is_ok() {
            return viol("C14.terminates", format!("directory run returned {}", r.outcome.describe()));
        }
        let opened: u32 = r.obs.files.iter().map(|f| f.opened).sum();
        if opened != 1 {
            return viol(
                "C14.bounded",
                format!("{opened} files of the directory were opened although the first one alone satisfies --take={take} --skip={skip}"),
            );
        }
        if r.obs.delivered > d + SLACK {
            return viol(
                "C14.bounded",
                format!("the file devices delivered {} bytes although the last row was complete after {d} bytes", r.obs.delivered),
            );
        }
        let all: Vec<String> = paths.iter().cloned().chain(std::iter::once(dir.clone())).collect();
        if strip_paths(&r.obs.stdout, &all) != strip_paths(&l1.obs.stdout, &all) {
            return viol(
                "C14.rows",
                format!("rows emitted before the early stop differ from the single-file run: {} vs {}", show(&r.obs.stdout), show(&l1.obs.stdout)),
            );
        }
        None
    })();
    let _ = std::fs::remove_dir_all(&dir);
    res
}

trait NonBlockOpen {
    fn custom_flags_nonblock(&mut self) -> &mut Self;
}

impl NonBlockOpen for std::fs::OpenOptions {
    fn custom_flags_nonblock(&mut self) -> &mut Self {
        use std::os::unix::fs::OpenOptionsExt;
        self.custom_flags(libc::O_NONBLOCK)
    }
}
