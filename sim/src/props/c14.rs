//! C14 — placeholder, replaced below.
use super::{Budget, Property, ShrinkCaps};
use crate::case::*;
use crate::common::*;
use crate::rng::Rng;

pub struct C14;

impl Property for C14 {
    fn id(&self) -> &'static str { "C14" }
    fn level(&self) -> &'static str { "exploration" }
    fn rule(&self) -> &'static str { "" }
    fn assumptions(&self) -> Vec<String> { vec![] }
    fn shrink_caps(&self) -> ShrinkCaps { ShrinkCaps { drop_pieces: true, simplify_records: false, shrink_raw: true, drop_opts: true } }
    fn budget(&self, _tier: Tier) -> Budget { Budget { seconds: 5, max_cases: 10 } }
    fn generate(&self, _rng: &mut Rng, _tier: Tier) -> Case { Case::new("C14", "todo") }
    fn check(&self, _case: &Case, _ctx: &mut Ctx) -> Option<Violation> { None }
}
