//! C10 — `--unique` gives exactly-once under redelivery (with re-encoding), by the same
//! equality as `=`, independent of the hasher seed.

use super::{Budget, Property, ShrinkCaps};
use crate::case::*;
use crate::common::*;
use crate::gen::*;
use crate::rng::Rng;
use crate::world::FilePlan;

pub struct C10;

/// Pool of pairwise distinct abstract values (distinct under any reasonable equality:
/// different types, or different numeric value, or different structure). No `-0`, no two
/// objects equal up to member order.
fn pool() -> Vec<Val> {
    let s = |x: &str| Val::Str(x.to_string());
    vec![
        Val::Null,
        Val::Bool(true),
        Val::Bool(false),
        Val::Int(0),
        Val::Int(1),
        Val::Int(-1),
        Val::Int(2),
        Val::Int(10),
        Val::Int(100),
        Val::Int(1000),
        Val::Int(-100_000),
        Val::Int((1 << 53) - 1),
        Val::Int(-((1 << 53) - 1)),
        Val::Dec(15, 1),
        Val::Dec(25, 1),
        Val::Dec(-15, 1),
        Val::Dec(1, 1),
        Val::Dec(1, 3),
        Val::Dec(123_456_789, 4),
        s(""),
        s("a"),
        s("A"),
        s("1"),
        s("1.0"),
        s("1.5"),
        s("null"),
        s("true"),
        s("é"),
        s("e\u{301}"),
        s("aé😀b"),
        s("q\"q"),
        s("b\\s"),
        s("sl/ash"),
        s("tab\tx"),
        s("nl\nx"),
        s("\u{1}"),
        s("\u{7f}"),
        s("\u{2028}"),
        s("[1]"),
        s("{}"),
        Val::Arr(vec![]),
        Val::Arr(vec![Val::Int(1)]),
        Val::Arr(vec![Val::Int(1), Val::Int(2)]),
        Val::Arr(vec![Val::Int(2), Val::Int(1)]),
        Val::Arr(vec![Val::Arr(vec![])]),
        Val::Arr(vec![Val::Null]),
        Val::Arr(vec![s("1")]),
        Val::Arr(vec![Val::Dec(15, 1), s("/")]),
        Val::Obj(vec![]),
        Val::Obj(vec![("a".into(), Val::Int(1))]),
        Val::Obj(vec![("a".into(), Val::Int(2))]),
        Val::Obj(vec![("b".into(), Val::Int(1))]),
        Val::Obj(vec![("a".into(), Val::Arr(vec![Val::Int(1)]))]),
        Val::Obj(vec![("a".into(), Val::Int(1)), ("b".into(), Val::Int(2))]),
        Val::Obj(vec![("a".into(), Val::Null)]),
        Val::Obj(vec![("é".into(), s("/"))]),
        Val::Obj(vec![("a".into(), Val::Obj(vec![("a".into(), Val::Dec(25, 1))]))]),
        // values that differ only in where a bracket sits: equal when flattened naively
        // (a hash or a key that concatenates members without length or terminator)
        Val::Obj(vec![("x".into(), Val::Obj(vec![("a".into(), Val::Int(1))])), ("b".into(), Val::Int(2))]),
        Val::Obj(vec![("x".into(), Val::Obj(vec![("a".into(), Val::Int(1)), ("b".into(), Val::Int(2))]))]),
        Val::Obj(vec![("x".into(), Val::Obj(vec![])), ("b".into(), Val::Int(2))]),
        Val::Obj(vec![("x".into(), Val::Obj(vec![("b".into(), Val::Int(2))]))]),
        Val::Arr(vec![Val::Arr(vec![Val::Int(1)]), Val::Int(2)]),
        Val::Arr(vec![Val::Arr(vec![Val::Int(1), Val::Int(2)])]),
        Val::Arr(vec![Val::Arr(vec![]), Val::Int(1)]),
        Val::Arr(vec![s("ab"), s("c")]),
        Val::Arr(vec![s("a"), s("bc")]),
        Val::Arr(vec![s("abc")]),
        Val::Arr(vec![Val::Int(1), Val::Int(23)]),
        Val::Arr(vec![Val::Int(12), Val::Int(3)]),
        Val::Arr(vec![Val::Int(123)]),
        // strings whose escaped printed forms collide when a code point beyond the BMP is
        // written with five hex digits: U+1F600 vs U+1F60 followed by "0"
        Val::Obj(vec![("k".into(), s("\u{1f600}"))]),
        Val::Obj(vec![("k".into(), s("\u{1f60}0"))]),
        // objects whose member names run into each other when they are joined with a
        // separator that a name may contain itself
        Val::Obj(vec![("a\nb".into(), Val::Int(1)), ("c".into(), Val::Int(2))]),
        Val::Obj(vec![("a".into(), Val::Int(1)), ("b\nc".into(), Val::Int(2))]),
        Val::Obj(vec![("a,b".into(), Val::Int(1)), ("c".into(), Val::Int(2))]),
        Val::Obj(vec![("a".into(), Val::Int(1)), ("b,c".into(), Val::Int(2))]),
        Val::Obj(vec![("a\u{0}b".into(), Val::Int(1)), ("c".into(), Val::Int(2))]),
        Val::Obj(vec![("a".into(), Val::Int(1)), ("b\u{0}c".into(), Val::Int(2))]),
        Val::Obj(vec![("a\tb".into(), Val::Int(1)), ("c".into(), Val::Int(2))]),
        Val::Obj(vec![("a".into(), Val::Int(1)), ("b\tc".into(), Val::Int(2))]),
        // neighbouring doubles: distinct values that an approximate comparison would merge
        Val::Dec(3, 1),
        Val::Dec(30_000_000_000_000_004, 17),
        Val::Dec(7, 1),
        Val::Dec(7_000_000_000_000_001, 16),
    ]
}

const ABSENT: i64 = -1;

/// one delivery of the record with identity tuple (g, h) (pool indices or ABSENT)
fn deliver(rng: &mut Rng, g: i64, h: i64, mode_whole: bool, uid: u32, level: u8, keep: Option<bool>) -> Vec<u8> {
    let p = pool();
    let mut members: Vec<(String, Val)> = Vec::new();
    if let Some(k) = keep {
        // an unselected field an upstream --filter looks at
        members.push(("keep".into(), Val::Bool(k)));
    }
    if !mode_whole {
        // fields that are not selected may differ between deliveries
        if rng.chance(1, 2) {
            members.push(("noise".into(), Val::Int(i128::from(rng.below(1000) as u32))));
        }
    } else {
        members.push(("id".into(), Val::Int(i128::from(uid))));
    }
    if g != ABSENT {
        members.push(("g".into(), p[g as usize].clone()));
    }
    if h != ABSENT {
        members.push(("h".into(), p[h as usize].clone()));
    }
    spell(&Val::Obj(members), rng, level)
}

impl Property for C10 {
    fn id(&self) -> &'static str {
        "C10"
    }
    fn level(&self) -> &'static str {
        "exploration"
    }
    fn rule(&self) -> &'static str {
        "A scenario = a base list of records that are pairwise distinct by construction on the compared part (whole records carrying a unique id, or --select .g [--select .h] with the selected members drawn from a pool of 84 pairwise distinct abstract values (incl. values that differ only in where a bracket sits, and neighbouring doubles) or absent) and an at-least-once transport applied by the harness: every record may be redelivered later any number of times, each time in a fresh spelling that denotes the same value (whitespace, escape spelling, numerically identical number spellings for |n| < 2^53 or non-integral decimals; no -0, member order never permuted), while unselected fields may change; several hasher seeds per scenario through hook H1. Variants: a lossy --filter upstream, --skip/--take/--sort-by/--group-by/--merge downstream, both selections under one title, rows made distinct by &index, the whole stream redelivered as a file argument named 2..3 times (hook H2), an aborted --unique run in the same process before the scenario. Oracle: stdout(--unique, faulted stream) = stdout(no --unique, the sub-stream of first deliveries with the same spellings) (exactly-once); the pairs [x, y] built from two deliveries go through --select (= #0 #1): true exactly for harness-known redeliveries (eq-agrees); identical stdout under every hasher seed (seed-free). evaluations = jawk executions; non-trivial = at least one redelivery was injected; distinct = distinct abstract traces. Round 7: one scenario in eight is a long history of 34..46 mostly distinct records whose redeliveries follow the first delivery closely; one in eight delivers the stream in 2..3 parts, each a file argument or the only file of a directory argument (hook H2)."
    }
    fn assumptions(&self) -> Vec<String> {
        vec![
            "weak fit for this technique: the fault is an at-least-once upstream (record-level redelivery with re-encoding); the harness knows which deliveries are duplicates because it injected them".into(),
            "numbers are confined to the interoperable range; -0 and member-order permutations are excluded as the property states".into(),
            "hook H1 (cfg yift_jawk_verif) seeds the hasher of the --unique set; unset it is std's RandomState".into(),
        ]
    }
    fn shrink_caps(&self) -> ShrinkCaps {
        ShrinkCaps {
            drop_pieces: true,
            simplify_records: false,
            shrink_raw: false,
            drop_opts: false,
        }
    }
    fn budget(&self, tier: Tier) -> Budget {
        match tier {
            Tier::Quick => Budget {
                seconds: 60,
                max_cases: 60_000,
            },
            Tier::Thorough => Budget {
                seconds: 600,
                max_cases: 6_000_000,
            },
        }
    }

    fn generate(&self, rng: &mut Rng, tier: Tier) -> Case {
        if rng.chance(1, 5) {
            return gen_computed(rng, tier);
        }
        let mode_whole = rng.chance(1, 3);
        let two = rng.chance(1, 2);
        let mut case = Case::new("C10", if mode_whole { "whole" } else { "selected" });
        let npool = pool().len() as i64;
        let max = if tier == Tier::Thorough { 40 } else { 16 };
        // one scenario in eight is a long one with many different records (whatever --unique
        // keeps per distinct row grows, moves, is reorganised), most redeliveries being of
        // records that were first seen a moment ago
        let many = rng.chance(1, 8);
        // ... and one in two hundred a very long one (hundreds of distinct rows)
        let very_many = many && rng.chance(1, 25);
        let n = if very_many {
            rng.range(300, 1300)
        } else if many {
            rng.range(34, 46)
        } else {
            rng.range(1, max)
        };
        // identities: tuple table
        let mut tuples: Vec<(i64, i64, u32)> = Vec::new();
        let mut order: Vec<usize> = Vec::new(); // delivery order as indices into tuples
        for _ in 0..n {
            if many && !tuples.is_empty() && rng.chance(1, 4) {
                let back = rng.below(3.min(tuples.len()));
                order.push(tuples.len() - 1 - back);
                continue;
            }
            if !many && !tuples.is_empty() && rng.chance(2, 5) {
                order.push(rng.below(tuples.len()));
                continue;
            }
            let g = if rng.chance(1, 10) { ABSENT } else { rng.range_i64(0, npool - 1) };
            let h = if !two || rng.chance(1, 4) { ABSENT } else { rng.range_i64(0, npool - 1) };
            let uid = tuples.len() as u32;
            let existing = if mode_whole {
                None
            } else {
                tuples.iter().position(|t| t.0 == g && t.1 == h)
            };
            match existing {
                Some(i) => order.push(i),
                None => {
                    tuples.push((g, h, uid));
                    order.push(tuples.len() - 1);
                }
            }
        }
        // a lossy stage upstream of --unique: deliveries it rejects never become rows, so the
        // first *accepted* delivery of a record is its first occurrence
        let filtered = !mode_whole && rng.chance(1, 3);
        let mut seen = vec![false; tuples.len()];
        for i in order {
            let (g, h, uid) = tuples[i];
            let level = if rng.chance(1, 3) { 2 } else { 1 };
            let keep = if filtered { Some(rng.chance(2, 3)) } else { None };
            let bytes = deliver(rng, g, h, mode_whole, uid, level, keep);
            let mut p = Piece::rec(bytes, i as u32);
            if keep == Some(false) {
                p.tag = "rejected".into();
            } else {
                if seen[i] {
                    p.tag = "redelivery".into();
                }
                seen[i] = true;
            }
            case.pieces.push(p);
            case.pieces.push(Piece::gap(gen_gap(rng, b"1", b"1", false)));
        }
        if !mode_whole {
            // (now and then both selections carry the same title: rows are still compared on
            // the selected values, not on what a row prints as)
            let same_title = two && rng.chance(1, 6);
            case.opts.push(vec!["--select".into(), ".g=g".into()]);
            if two {
                case.opts.push(vec!["--select".into(), if same_title { ".h=g".into() } else { ".h=h".into() }]);
            }
            if rng.chance(1, 4) {
                case.opts.push(vec![format!("--output-style={}", rng.pick(&["csv", "text"]))]);
            }
            if filtered {
                case.opts.push(vec!["--filter=.keep".into()]);
            }
        } else if rng.chance(1, 4) {
            case.opts.push(vec![format!("--style={}", rng.pick(&["consise", "pretty"]))]);
        }
        if !mode_whole && !filtered && rng.chance(1, 6) {
            // a selected input-context value makes every row different from every other:
            // redelivered values are then no duplicates at all and nothing may be removed
            case.opts.insert(0, vec!["--select".into(), format!("{}=pos", rng.pick(&["&index", "&index-in-file"]))]);
            case.set("ctx", 1);
        }
        // stages downstream of --unique see exactly the first occurrences
        if rng.chance(1, 5) {
            case.opts.push(vec![format!("--skip={}", rng.below(3))]);
        }
        if rng.chance(1, 5) {
            if rng.chance(1, 6) {
                // the "no limit" idiom
                case.opts.push(vec![format!("--take={}", rng.pick(&[u64::MAX, 1u64 << 62, 1u64 << 50]))]);
            } else {
                case.opts.push(vec![format!("--take={}", rng.range(1, 6))]);
            }
        }
        if rng.chance(1, 6) {
            // a sorter downstream, on a key that is coarser than the row
            case.opts.push(vec![format!("--sort-by={}", rng.pick(&[".h", ".g", ".keep", ".id", "(size .)", "\"k\""]))]);
        }
        if rng.chance(1, 8) && !has_opt(&case.opts, "--output-style") && !has_opt(&case.opts, "--sort-by") {
            // a collecting stage downstream, keyed by something that is not part of the row
            // (or not keyed at all): it sees the first occurrences, all of them, once
            case.opts.push(vec![(*rng.pick(&["--group-by=(stringify .noise)", "--group-by=(stringify .keep)", "--group-by=(stringify .id)", "--merge", "--group-by", "--group-by=(stringify (size .))"])).to_string()]);
        }
        // the upstream redelivers a whole file: the stream arrives as a file argument that
        // is named 2..3 times on the command line (hook H2)
        if rng.chance(1, 8) && !case.opts.iter().flatten().any(|t| t.contains("&index-in-file")) {
            case.set("file_times", rng.range(2, 3) as i64);
        }
        // the stream arrives in 2..3 parts, each a file argument or the only file of a
        // directory argument: one run, one notion of "seen before"
        if case.param("file_times") < 2 && rng.chance(1, 8) && !case.opts.iter().flatten().any(|t| t.contains("&index-in-file")) {
            case.set("parts", rng.range(2, 3) as i64);
            case.set("parts_seed", (rng.next_u64() >> 1) as i64);
        }
        // history: an earlier --unique run in the same process that was cut short by a failing
        // read must leave nothing behind for this one
        case.set("prelude", i64::from(rng.chance(1, 6)));
        case.hash_seeds = (0..3).map(|_| rng.next_u64() >> 1).collect();
        case.set("pairs_seed", (rng.next_u64() >> 1) as i64);
        case.delivery = gen_delivery(rng, case.stream().len());
        case
    }

    fn check(&self, case: &Case, ctx: &mut Ctx) -> Option<Violation> {
        if case.family == "computed" {
            return check_computed(case, ctx);
        }
        if has_opt(&case.opts, "--unique") || case.pieces.iter().any(|p| p.kind == Kind::Raw || (p.kind == Kind::Rec && p.id.is_none())) {
            ctx.stats.invalid = true;
            return None;
        }
        let stream = case.stream();
        // sub-stream of first deliveries (same spellings)
        let mut seen: Vec<u32> = Vec::new();
        let mut firsts: Vec<u8> = Vec::new();
        let mut redeliveries = 0u64;
        for p in &case.pieces {
            if p.kind == Kind::Rec && p.tag == "rejected" {
                ctx.stats.probe("delivery rejected by the upstream filter");
            } else if p.kind == Kind::Rec {
                let id = p.id.unwrap();
                if seen.contains(&id) {
                    redeliveries += 1;
                    firsts.push(b'\n');
                    continue;
                }
                seen.push(id);
            }
            firsts.extend_from_slice(&p.bytes.0);
        }
        let ctx_rows = case.param("ctx") == 1 && case.opts.iter().flatten().any(|t| t.starts_with('&'));
        if ctx_rows {
            // rows differ by their position: the reference is the whole stream
            firsts = stream.clone();
            ctx.stats.probe("rows made distinct by an input-context selection");
        }
        ctx.stats.fault("record.redelivered", redeliveries);
        if redeliveries > 0 {
            ctx.stats.nontrivial = true;
        }
        let file_times = case.param("file_times").max(0) as usize;
        if file_times >= 2 {
            ctx.stats.probe("whole file redelivered (same path named again)");
            ctx.stats.nontrivial = true;
            if ctx_rows {
                // every reading contributes rows with new ordinals
                let mut all = Vec::new();
                for _ in 0..file_times {
                    all.extend_from_slice(&stream);
                }
                firsts = all;
            }
        }
        let reference = ctx.exec(ref_spec(case, &firsts));
        if !reference.outcome.is_ok() {
            ctx.stats.invalid = true;
            ctx.jawk_panic = None;
            return None;
        }
        let mut uniq = case.clone();
        uniq.opts.push(vec!["--unique".into()]);
        if case.param("prelude") == 1 && stream.len() > 4 {
            let mut spec = case_spec(&uniq, &stream);
            spec.delivery.whole = false;
            spec.rfault = Some(crate::world::Fault {
                at: stream.len() * 2 / 3,
                kind: crate::world::ErrKind::Other,
                sticky: true,
            });
            let pre = ctx.exec(spec);
            ctx.stats.probe("history: an aborted --unique run precedes the scenario");
            if matches!(pre.outcome, crate::run::Outcome::Panic(..)) {
                return None;
            }
            ctx.jawk_panic = None;
        }
        // parts: where the stream is cut (after a gap) and which parts sit in a directory
        let mut part_datas: Vec<Vec<u8>> = Vec::new();
        let mut part_dirs: Vec<bool> = Vec::new();
        if case.param("parts") >= 2 && file_times < 2 {
            let mut prng = Rng::new(case.param("parts_seed") as u64);
            let mut ends: Vec<usize> = Vec::new();
            let mut off = 0;
            for p in &case.pieces {
                off += p.bytes.0.len();
                if p.kind == Kind::Gap && off < stream.len() {
                    ends.push(off);
                }
            }
            let mut cuts: Vec<usize> = Vec::new();
            for _ in 1..case.param("parts") {
                if !ends.is_empty() {
                    let c = *prng.pick(&ends);
                    if !cuts.contains(&c) {
                        cuts.push(c);
                    }
                }
            }
            cuts.sort();
            if !cuts.is_empty() {
                let mut prev = 0;
                for c in cuts {
                    part_datas.push(stream[prev..c].to_vec());
                    prev = c;
                }
                part_datas.push(stream[prev..].to_vec());
                part_dirs = part_datas.iter().map(|_| prng.chance(1, 2)).collect();
                ctx.stats.probe("stream delivered in parts (files and directories)");
                if part_dirs[..part_dirs.len() - 1].iter().any(|d| *d) {
                    ctx.stats.probe("a directory argument is followed by another argument");
                }
            }
        }
        let mut first_out: Option<Vec<u8>> = None;
        for (si, hs) in case.hash_seeds.iter().enumerate() {
            let mut made_dirs: Vec<String> = Vec::new();
            let mut spec = if !part_datas.is_empty() {
                let mut args = Vec::new();
                let mut paths = Vec::new();
                for d in &part_dirs {
                    if *d {
                        let Some(dir) = ctx.fresh_dir() else {
                            ctx.harness_error = Some("cannot create a directory".into());
                            return None;
                        };
                        paths.push(format!("{dir}/only.json"));
                        args.push(dir.clone());
                        made_dirs.push(dir);
                    } else {
                        let p = ctx.fresh_paths(1).remove(0);
                        args.push(p.clone());
                        paths.push(p);
                    }
                }
                sim_args_spec(&uniq, &args, &paths, &part_datas, &[])
            } else if file_times >= 2 {
                let paths = ctx.fresh_paths(1);
                let mut sp = sim_files_spec(&uniq, &paths, &[stream.clone()], &[FilePlan { chunks: case.delivery.chunks.clone(), eintr: case.delivery.eintr.clone(), ..FilePlan::default() }]);
                for _ in 1..file_times {
                    sp.argv.push(paths[0].clone());
                }
                sp
            } else {
                case_spec(&uniq, &stream)
            };
            spec.hash_seed = Some(*hs);
            let r = ctx.exec(spec);
            for d in &made_dirs {
                let _ = std::fs::remove_dir_all(d);
            }
            if !r.outcome.is_ok() {
                if matches!(r.outcome, crate::run::Outcome::Panic(..)) {
                    return None;
                }
                return viol("C10.exactly-once", format!("--unique run failed: {}", r.outcome.describe()));
            }
            if let Some(f) = &first_out {
                if *f != r.obs.stdout {
                    return viol(
                        "C10.seed-free",
                        format!(
                            "--unique output depends on the hasher seed ({} vs {}): {} vs {}",
                            case.hash_seeds[0],
                            hs,
                            show(f),
                            show(&r.obs.stdout)
                        ),
                    );
                }
            } else {
                first_out = Some(r.obs.stdout.clone());
            }
            if r.obs.stdout != reference.obs.stdout {
                let kept_more = r.obs.stdout.len() > reference.obs.stdout.len();
                return viol(
                    "C10.exactly-once",
                    format!(
                        "--unique over a stream with {redeliveries} redeliveries {} (hasher seed #{si}); first difference at byte {}: {} vs first deliveries {}",
                        if kept_more { "kept a later duplicate" } else { "removed something that is not a later duplicate" },
                        common_prefix(&r.obs.stdout, &reference.obs.stdout),
                        show(&r.obs.stdout),
                        show(&reference.obs.stdout)
                    ),
                );
            }
        }
        // eq-agrees: `=` on pairs of deliveries must say "equal" exactly for redeliveries
        let recs: Vec<&Piece> = case.pieces.iter().filter(|p| p.kind == Kind::Rec).collect();
        if recs.len() >= 2 && !ctx_rows {
            let mut rng = Rng::new(case.param("pairs_seed") as u64);
            let mut pairs: Vec<(usize, usize)> = Vec::new();
            // all (redelivery, first) pairs plus a sample of others
            for i in 0..recs.len() {
                for j in 0..i {
                    if recs[i].id == recs[j].id {
                        pairs.push((j, i));
                        break;
                    }
                }
            }
            for _ in 0..6 {
                let a = rng.below(recs.len());
                let b = rng.below(recs.len());
                pairs.push((a, b));
            }
            pairs.truncate(24);
            // compare on the compared part: whole record, or the selected members
            let selected = case.family == "selected";
            let mut input = Vec::new();
            for (a, b) in &pairs {
                input.push(b'[');
                input.extend_from_slice(&recs[*a].bytes.0);
                input.push(b',');
                input.extend_from_slice(&recs[*b].bytes.0);
                input.extend_from_slice(b"]\n");
            }
            // synthetic pairs straight from the pool: two different entries are never equal,
            // two spellings of one entry always are; close neighbours are tried every time
            let pl = pool();
            let mut synth: Vec<(usize, usize)> = Vec::new();
            for _ in 0..3 {
                synth.push((rng.below(pl.len()), rng.below(pl.len())));
            }
            for w in pl.len() - 19..pl.len() - 1 {
                if rng.chance(1, 3) {
                    synth.push((w, w + 1));
                }
            }
            let mut synth_want: Vec<bool> = Vec::new();
            for (a, b) in &synth {
                let wrap = |v: &Val, rng: &mut Rng| -> Vec<u8> {
                    if selected_mode(case) {
                        spell(&Val::Obj(vec![("g".into(), v.clone())]), rng, 2)
                    } else {
                        spell(v, rng, 2)
                    }
                };
                input.push(b'[');
                input.extend_from_slice(&wrap(&pl[*a], &mut rng));
                input.push(b',');
                input.extend_from_slice(&wrap(&pl[*b], &mut rng));
                input.extend_from_slice(b"]\n");
                synth_want.push(a == b);
            }
            let expr = if selected {
                // rows are compared on (g, h): absent on both sides counts as equal
                let two = has_opt_value(&case.opts, ".h=h") || has_opt_value(&case.opts, ".h=g");
                let part = |k: &str| {
                    format!("(? (and (nothing? #0.{k}) (nothing? #1.{k})) true (default (= #0.{k} #1.{k}) false))")
                };
                if two {
                    format!("(and {} {})", part("g"), part("h"))
                } else {
                    part("g")
                }
            } else {
                "(= #0 #1)".to_string()
            };
            let mut eqc = Case::new("C10", "eq");
            eqc.opts = vec![vec!["--select".into(), format!("{expr}=e")], vec!["--style=consise".into()]];
            let r = ctx.exec(ref_spec(&eqc, &input));
            if !r.outcome.is_ok() {
                ctx.stats.invalid = true;
                ctx.jawk_panic = None;
                return None;
            }
            let text = String::from_utf8_lossy(&r.obs.stdout).to_string();
            let rows: Vec<&str> = text.lines().collect();
            if rows.len() != pairs.len() + synth.len() {
                return viol("C10.eq-agrees", format!("{} rows for {} pairs: {}", rows.len(), pairs.len() + synth.len(), show(&r.obs.stdout)));
            }
            for (k, ((a, b), want)) in synth.iter().zip(synth_want.iter()).enumerate() {
                let row = rows[pairs.len() + k];
                let got = match row {
                    "{\"e\":true}" => Some(true),
                    "{\"e\":false}" => Some(false),
                    _ => None,
                };
                ctx.stats.probe(if *want { "eq pair: two spellings of a pool value" } else { "eq pair: two different pool values" });
                if got != Some(*want) {
                    return viol(
                        "C10.eq-agrees",
                        format!("`=` says {row} for pool values #{a} and #{b}, which are {} the same value (pair line {})", if *want { "" } else { "not" }, pairs.len() + k),
                    );
                }
            }
            for (row, (a, b)) in rows.iter().zip(pairs.iter()) {
                let want = recs[*a].id == recs[*b].id;
                let got = match *row {
                    "{\"e\":true}" => Some(true),
                    "{\"e\":false}" => Some(false),
                    _ => None,
                };
                ctx.stats.probe(if want { "eq pair: redelivery" } else { "eq pair: distinct records" });
                if got != Some(want) {
                    return viol(
                        "C10.eq-agrees",
                        format!(
                            "`=` says {row} for {} and {} but the harness knows they are {} the same record (while --unique agreed with the harness)",
                            show(&recs[*a].bytes.0),
                            show(&recs[*b].bytes.0),
                            if want { "" } else { "not" }
                        ),
                    );
                }
            }
        }
        None
    }
}

fn has_opt_value(opts: &[Vec<String>], v: &str) -> bool {
    opts.iter().any(|o| o.iter().any(|t| t == v))
}

fn selected_mode(case: &Case) -> bool {
    case.family == "selected"
}

// ---------------------------------------------------------------------------------------
// Computed selections: the harness does not know which computed values are equal, so the
// oracle is jawk's own `=` (the property: "duplicates exactly when the = function says
// they are equal") applied to the rows the two runs print.

const COMPUTED: &[&str] = &[
    "(floor (/ .n 10))", "(round .n)", "(ceil (/ .id 2))", "(% .id 3)", "(size .arr)", "(len .s)", ".g", ".s",
    "(stringify .n)", "(abs .n)", "(floor .n)", "(/ .id 2)", "(* .n 1.0)", "(+ .n 0.5)", "(as_number .s)", ".h", ".t",
    ".obj", "(round (/ .n 3))", "(floor (/ .id 2))", "(? (> .n 0) 1 1.0)", "(min .n 3)", "(max .n 3)",
];

fn gen_computed(rng: &mut Rng, tier: Tier) -> Case {
    let mut case = Case::new("C10", "computed");
    let n = rng.range(2, if tier == Tier::Thorough { 20 } else { 10 });
    let mut vals: Vec<Val> = Vec::new();
    for i in 0..n {
        if !vals.is_empty() && rng.chance(1, 3) {
            // the same value again (a real duplicate), freshly spelled
            let v = vals[rng.below(vals.len())].clone();
            case.pieces.push(Piece::rec(spell(&v, rng, 2), i as u32));
            vals.push(v);
        } else {
            let mut v = gen_schema_record(rng, (i % 4) as u32);
            if let Val::Obj(ms) = &mut v {
                // small numbers so that computed values collide often
                for (k, x) in ms.iter_mut() {
                    if k == "n" {
                        *x = if rng.chance(1, 2) { Val::Int(rng.range_i64(0, 40) as i128) } else { Val::Dec(rng.range_i64(1, 399) * 10 + 5, 1) };
                    }
                }
            }
            case.pieces.push(Piece::rec(spell(&v, rng, 1), i as u32));
            vals.push(v);
        }
        case.pieces.push(Piece::gap(vec![b'\n']));
    }
    // one scenario in five: integers beyond 2^53 that are neighbours of each other (integer
    // tokens only, within 64 bits: what `=` says about them is asked, not assumed)
    let bigs = rng.chance(1, 5);
    if bigs {
        let base: i128 = *rng.pick(&[1i128 << 53, (1i128 << 53) + 1024, 1i128 << 60, (1i128 << 63) - 9, 100_000_000_000_000_000, -(1i128 << 53) - 4, 1_234_567_890_123_456_789]);
        case.pieces.clear();
        let m = rng.range(3, 9);
        for i in 0..m {
            let x = Val::Int(base + rng.below(4) as i128);
            let v = match rng.below(4) {
                0 => x,
                1 => Val::Obj(vec![("id".into(), Val::Int((i % 2) as i128)), ("n".into(), x)]),
                2 => Val::Arr(vec![x, Val::Str("k".into())]),
                _ => Val::Obj(vec![("n".into(), x), ("arr".into(), Val::Arr(vec![Val::Int(base + rng.below(3) as i128)]))]),
            };
            case.pieces.push(Piece::rec(spell(&v, rng, 0), i as u32));
            case.pieces.push(Piece::gap(vec![b'\n']));
        }
        if rng.chance(1, 2) {
            case.opts.push(vec!["--select".into(), format!("{}=a", rng.pick(&[".n", ".", ".arr", "#0", "(stringify .n)"]))]);
        }
        case.opts.push(vec!["--style=consise".into()]);
        case.opts.push(vec!["--utf8-strings".into()]);
        case.hash_seeds = (0..2).map(|_| rng.next_u64() >> 1).collect();
        case.delivery = gen_delivery(rng, case.stream().len());
        case.set("bigs", 1);
        return case;
    }
    // one scenario in twenty: more than 64 columns, every record filling one or two of them
    // (which columns are present is part of the row)
    if rng.chance(1, 20) {
        let cols = rng.range(66, 72);
        case.pieces.clear();
        let m = rng.range(3, 9);
        for i in 0..m {
            let pick_col = |rng: &mut Rng| match rng.below(3) {
                0 => rng.below(4),
                1 => cols - 1 - rng.below(4),
                _ => rng.below(cols),
            };
            let mut ms: Vec<(String, Val)> = Vec::new();
            let a = pick_col(rng);
            ms.push((format!("c{a}"), Val::Int(1)));
            if rng.chance(1, 3) {
                let b = pick_col(rng);
                if b != a {
                    ms.push((format!("c{b}"), Val::Str("x".into())));
                }
            }
            case.pieces.push(Piece::rec(spell(&Val::Obj(ms), rng, 1), i as u32));
            case.pieces.push(Piece::gap(vec![b'\n']));
        }
        for c in 0..cols {
            case.opts.push(vec!["--select".into(), format!(".c{c}=c{c}")]);
        }
        case.opts.push(vec!["--style=consise".into()]);
        case.opts.push(vec!["--utf8-strings".into()]);
        case.hash_seeds = (0..2).map(|_| rng.next_u64() >> 1).collect();
        case.delivery = gen_delivery(rng, case.stream().len());
        case.set("columns", cols as i64);
        return case;
    }
    // one scenario in six: the rows are values of the pool themselves (look-alikes sit next
    // to each other there), bare or as the elements of arrays that are split
    if rng.chance(1, 6) {
        let p = pool();
        case.pieces.clear();
        let m = rng.range(3, 10);
        let at = rng.below(p.len());
        let near = |rng: &mut Rng| p[(at + rng.below(4)) % p.len()].clone();
        let split = rng.chance(1, 3);
        for i in 0..m {
            let v = if split { Val::Arr((0..rng.range(1, 3)).map(|_| near(rng)).collect()) } else { near(rng) };
            case.pieces.push(Piece::rec(spell(&v, rng, 1), i as u32));
            case.pieces.push(Piece::gap(vec![b'\n']));
        }
        if split {
            case.opts.push(vec!["--split-by=.".into()]);
        }
        if rng.chance(1, 3) {
            case.opts.push(vec!["--select".into(), ".=a".into()]);
        }
        case.opts.push(vec!["--style=consise".into()]);
        case.opts.push(vec!["--utf8-strings".into()]);
        case.hash_seeds = (0..2).map(|_| rng.next_u64() >> 1).collect();
        case.delivery = gen_delivery(rng, case.stream().len());
        case.set("bare", 1);
        return case;
    }
    let split = rng.chance(1, 4);
    if split {
        case.opts.push(vec!["--split-by=.arr".into()]);
    }
    // titles that are also common values
    let titles = ["a", "b"];
    let k = rng.range(1, 2);
    for t in titles.iter().take(k) {
        let e = if split { *rng.pick(&["^.id", ".", "^.g", "(stringify .)", "^.n", "(floor (/ ^.n 10))"]) } else { *rng.pick(COMPUTED) };
        case.opts.push(vec!["--select".into(), format!("{e}={t}")]);
    }
    if rng.chance(1, 6) {
        case.opts.push(vec![format!("--filter={}", rng.pick(&["(> .n 5)", "(string? .s)", "true"]))]);
    }
    case.opts.push(vec!["--style=consise".into()]);
    // rows are read back to ask `=` about them, so their printed form has to be injective:
    // raw UTF-8 (the escaped form writes code points beyond the BMP with five hex digits,
    // which collides with a BMP character followed by a digit)
    case.opts.push(vec!["--utf8-strings".into()]);
    case.hash_seeds = (0..2).map(|_| rng.next_u64() >> 1).collect();
    case.delivery = gen_delivery(rng, case.stream().len());
    case
}

fn rows_of(out: &[u8]) -> Vec<Vec<u8>> {
    out.split(|b| *b == b'\n').filter(|l| !l.is_empty()).map(<[u8]>::to_vec).collect()
}

fn check_computed(case: &Case, ctx: &mut Ctx) -> Option<Violation> {
    if has_opt(&case.opts, "--unique") || !has_opt(&case.opts, "--style=consise") || !has_opt(&case.opts, "--utf8-strings") {
        ctx.stats.invalid = true;
        return None;
    }
    let stream = case.stream();
    let plain = ctx.exec(ref_spec(case, &stream));
    if !plain.outcome.is_ok() {
        ctx.stats.invalid = true;
        ctx.jawk_panic = None;
        return None;
    }
    let r_rows = rows_of(&plain.obs.stdout);
    if r_rows.len() > 40 {
        ctx.stats.invalid = true;
        return None;
    }
    let mut uniq = case.clone();
    uniq.opts.push(vec!["--unique".into()]);
    let mut spec = case_spec(&uniq, &stream);
    spec.hash_seed = case.hash_seeds.first().copied();
    let u = ctx.exec(spec);
    if !u.outcome.is_ok() {
        if matches!(u.outcome, crate::run::Outcome::Panic(..)) {
            return None;
        }
        return viol("C10.exactly-once", format!("--unique run failed: {}", u.outcome.describe()));
    }
    let q_rows = rows_of(&u.obs.stdout);
    // 1. the unique output is a subsequence of the plain output (first occurrences keep
    //    their order, nothing is invented); match greedily and remember who was dropped
    let mut kept_at: Vec<usize> = Vec::new();
    let mut j = 0;
    for (i, r) in r_rows.iter().enumerate() {
        if j < q_rows.len() && *r == q_rows[j] {
            kept_at.push(i);
            j += 1;
        }
    }
    if j != q_rows.len() {
        return viol(
            "C10.exactly-once",
            format!("the --unique output is not a sub-sequence of the output without --unique: {} vs {}", show(&u.obs.stdout), show(&plain.obs.stdout)),
        );
    }
    let dropped: Vec<usize> = (0..r_rows.len()).filter(|i| !kept_at.contains(i)).collect();
    ctx.stats.fault("rows-removed-by-unique", dropped.len() as u64);
    if !dropped.is_empty() {
        ctx.stats.nontrivial = true;
    }
    // 2./3. ask jawk's own `=` about the printed rows
    let mut pairs: Vec<(usize, usize)> = Vec::new(); // indices into r_rows
    for a in 0..kept_at.len() {
        for b in (a + 1)..kept_at.len() {
            pairs.push((kept_at[a], kept_at[b]));
        }
    }
    let kept_pairs = pairs.len();
    for d in &dropped {
        for k in kept_at.iter().filter(|k| **k < *d) {
            pairs.push((*k, *d));
        }
    }
    if pairs.is_empty() {
        return None;
    }
    let mut input = Vec::new();
    for (a, b) in &pairs {
        input.push(b'[');
        input.extend_from_slice(&r_rows[*a]);
        input.push(b',');
        input.extend_from_slice(&r_rows[*b]);
        input.extend_from_slice(b"]\n");
    }
    let mut eqc = Case::new("C10", "eq");
    eqc.opts = vec![vec!["--select".into(), "(= #0 #1)=e".into()], vec!["--style=consise".into()]];
    let e = ctx.exec(ref_spec(&eqc, &input));
    if !e.outcome.is_ok() {
        ctx.stats.invalid = true;
        ctx.jawk_panic = None;
        return None;
    }
    let answers = rows_of(&e.obs.stdout);
    if answers.len() != pairs.len() {
        ctx.stats.invalid = true;
        ctx.stats.probe("skipped: printed rows did not read back as pairs");
        return None;
    }
    let is_true = |i: usize| answers[i] == b"{\"e\":true}";
    for i in 0..kept_pairs {
        if is_true(i) {
            return viol(
                "C10.exactly-once",
                format!(
                    "two rows of the --unique output are equal by `=`: {} and {}",
                    show(&r_rows[pairs[i].0]),
                    show(&r_rows[pairs[i].1])
                ),
            );
        }
    }
    for d in &dropped {
        let any = (kept_pairs..pairs.len()).any(|i| pairs[i].1 == *d && is_true(i));
        if !any {
            return viol(
                "C10.exactly-once",
                format!("--unique removed the row {} although `=` says it equals no earlier row", show(&r_rows[*d])),
            );
        }
    }
    ctx.stats.probe("computed selections judged by jawk's own =");
    None
}
