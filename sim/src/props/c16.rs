//! C16 — read and write failures stop the run with an error, never a panic or silent loss.
//! Fault enumeration over sampled cases: every input offset as a failing read, every offset
//! of the fault-free stdout (and stderr) as a failing write, in sticky and recovering
//! worlds, garnished with EINTR and short transfers.

use super::{Budget, Property, ShrinkCaps};
use crate::case::*;
use crate::common::*;
use crate::gen::*;
use crate::rng::{mix, Rng};
use crate::run::*;
use crate::world::*;

pub struct C16;

const ALLOWANCE: usize = 64 * 1024;

fn truncate_pieces(pieces: &mut Vec<Piece>, max: usize) {
    let mut total: usize = pieces.iter().map(|p| p.bytes.0.len()).sum();
    while total > max && !pieces.is_empty() {
        let p = pieces.pop().unwrap();
        total -= p.bytes.0.len();
    }
}

impl Property for C16 {
    fn id(&self) -> &'static str {
        "C16"
    }
    fn level(&self) -> &'static str {
        "fault_enumeration"
    }
    fn rule(&self) -> &'static str {
        "A case = generated stream (clean or noisy) x pipeline of any class x --on-error policy x output style x delivery knobs. Per case the check enumerates fault points: every input byte offset 0..=len as a failing read (all offsets when the stream is <= 400 bytes in quick tier, otherwise all piece boundaries plus a seeded sample; all offsets in thorough tier), every offset of the fault-free stdout as a failing write, every offset of the fault-free stderr likewise, each in a sticky or recovering world with seeded EINTR/short-transfer garnish before the fault; plus fault-free 'transparent' runs (EINTR/short only), Ok(0) writes and double faults; family 'sweep-read-file' does the same for 1..3 file arguments behind the opener seam (hook H2: every offset of every file, sampled above 200 bytes, plus a failing open; one file in six larger than jawk's 8 KiB BufReader; a single file may sit behind a nested directory argument), judged over all sources: no successful read and no further open anywhere after the failure; family 'sweep-list' (hook H3) spreads 2..4 files over directory arguments (one flat directory; a plain file then a directory; a directory with a sub-directory; two directories) whose listings the simulator owns: seeded listing order, and per directory the listing that cannot be opened and every entry position 0..=n as the failing one (sticky or recovering), judged like a read failure (Err returned, nothing opened or read afterwards, streaming stdout a prefix of the fault-free run with the same listing order). evaluations = fault points executed (one jawk run each, plus one reference run per case). A point is non-trivial iff the planned fault was actually delivered by the stub (or, for transparent runs, at least one EINTR/short transfer was delivered); distinct = distinct abstract traces (run-length-compressed sequence of seam event kinds and results + outcome class) among non-trivial points. Round 7: one scenario in five holds values that almost are JSON (surrogate halves, short \\u escapes, non-UTF-8 strings, numbers and containers broken late); one sweep in thirty runs over a value nested 515..700 deep; one scenario in five names file arguments with multi-byte characters (long) or with a comma and a blank."
    }
    fn assumptions(&self) -> Vec<String> {
        vec![
            "in-process seams: jawk::go with stub Read/Write objects; std Bytes/BufReader/write_all are real".into(),
            "reference = fault-free whole-buffer run of the same code; data semantics are not modelled".into(),
            "stdin, file arguments behind the opener seam (H2) and directory listings behind the lister seam (H3); the process level is under C20".into(),
            "flushing is not judged here (go never flushes; stubs are unbuffered)".into(),
        ]
    }
    fn shrink_caps(&self) -> ShrinkCaps {
        ShrinkCaps {
            drop_pieces: true,
            simplify_records: true,
            shrink_raw: true,
            drop_opts: true,
        }
    }
    fn budget(&self, tier: Tier) -> Budget {
        match tier {
            Tier::Quick => Budget {
                seconds: 60,
                max_cases: 9_000,
            },
            Tier::Thorough => Budget {
                seconds: 600,
                max_cases: 400_000,
            },
        }
    }

    fn generate(&self, rng: &mut Rng, tier: Tier) -> Case {
        let family = match rng.below(27) {
            0..=7 => "sweep-read",
            8..=14 => "sweep-write",
            15..=16 => "transparent",
            17 => "zero",
            18 => "double",
            19..=23 => "sweep-read-file",
            _ => "sweep-list",
        };
        let mut case = Case::new("C16", family);
        let noisy = rng.chance(1, 2);
        // a file larger than jawk's own 8 KiB BufReader, so that a fault can land after a refill
        let big = family == "sweep-read-file" && rng.chance(1, 6);
        let w = StreamWish {
            min_records: if big { 120 } else { 0 },
            max_records: if big {
                260
            } else if tier == Tier::Thorough {
                20
            } else {
                10
            },
            noise_eighths: if noisy { 3 } else { 0 },
            allow_touch: true,
            spell_level: 1,
            allow_big: true,
            schema_only: false,
        };
        case.pieces = gen_stream(rng, &w);
        if !big {
            truncate_pieces(&mut case.pieces, 600);
        }
        if rng.chance(1, 5) {
            // values that almost are JSON (halves of surrogate pairs, short \u escapes,
            // strings that are not UTF-8, numbers and containers that go wrong late)
            for _ in 0..rng.range(1, 2) {
                let at = rng.below(case.pieces.len() + 1);
                let mut v = vec![b'\n'];
                let t: &[u8] = *rng.pick(MALFORMED_VALUES);
                v.extend_from_slice(t);
                v.push(b'\n');
                case.pieces.insert(at, Piece::raw(v));
            }
        }
        if !big && rng.chance(1, 10) {
            // a string, or a member name, of 260..1500 bytes (escapes and multi-byte characters
            // in it): a reader that moves long literals in bulk meets the fault inside one
            let n = rng.range(260, 1500);
            let mut t = String::with_capacity(n + 8);
            while t.len() < n {
                t.push_str(*rng.pick(&["a", "b", "xyz", "é", "日", "\\n", "\\\"", "\\u00e9", " ", "0"]));
            }
            let v = match rng.below(3) {
                0 => format!("\"{t}\""),
                1 => format!("{{\"id\":7,\"s\":\"{t}\"}}"),
                _ => format!("{{\"{t}\":1}}"),
            };
            let at = rng.below(case.pieces.len() + 1);
            case.pieces.insert(at, Piece::gap(vec![b'\n']));
            case.pieces.insert(at, Piece::rec(v.into_bytes(), 900));
            case.pieces.insert(at, Piece::gap(vec![b'\n']));
            case.set("long_literal", 1);
        }
        if !big && matches!(family, "sweep-read" | "sweep-write") && rng.chance(1, 30) {
            // a value nested far deeper than a test would write (and far less deep than the
            // stack allows): arrays, or objects and arrays in turn
            let d = rng.range(515, 700);
            let mut v = Vec::with_capacity(4 * d + 8);
            let mixed = rng.chance(1, 2);
            for i in 0..d {
                if mixed && i % 2 == 1 {
                    v.extend_from_slice(b"{\"a\":");
                } else {
                    v.push(b'[');
                }
            }
            v.push(b'7');
            for i in (0..d).rev() {
                v.push(if mixed && i % 2 == 1 { b'}' } else { b']' });
            }
            case.pieces = vec![
                Piece::rec(b"1".to_vec(), 0),
                Piece::gap(vec![b'\n']),
                Piece::raw(v),
                Piece::gap(vec![b' ']),
                Piece::rec(b"{\"id\":2}".to_vec(), 1),
                Piece::gap(vec![b'\n']),
            ];
            case.set("deep", d as i64);
        }
        let mut wish = PipeWish::any();
        wish.allow_corpus = false;
        let pipe = gen_pipe(rng, &wish);
        case.opts = pipe.opts;
        let pol = *rng.pick(&[Policy::Ignore, Policy::Panic, Policy::Stderr, Policy::Stdout]);
        if pol != Policy::Ignore || rng.chance(1, 2) {
            case.opts.push(policy_opt(pol));
        }
        if case.param("deep") > 0 {
            // (indentation makes the output quadratic in the depth: a million one-byte
            // writes per run would only exhaust the event budget)
            case.opts.retain(|o| o[0] != "--style=pretty");
        }
        let len = case.stream().len();
        case.delivery = gen_delivery(rng, len);
        case.set("sweep_seed", (rng.next_u64() >> 1) as i64);
        match family {
            "transparent" => {
                if case.delivery.whole {
                    case.delivery.whole = false;
                }
                if case.delivery.eintr.is_empty() {
                    case.delivery.eintr.push((rng.below(len + 1), 2));
                }
                if case.delivery.chunks.is_empty() {
                    case.delivery.chunks = vec![1, 3];
                }
                case.out = gen_sink_garnish(rng, 200);
                case.err = gen_sink_garnish(rng, 100);
                if case.out.short.is_empty() {
                    case.out.short = vec![2, 5];
                }
            }
            "zero" => {
                case.out.zero_at = Some(rng.below(120));
            }
            "sweep-read-file" => {
                case.delivery = Delivery {
                    whole: true,
                    ..Delivery::default()
                };
                let inside = rng.chance(1, 3);
                super::c17::place_cuts(rng, &mut case, inside);
                let n = case.cuts().len() + 1;
                case.files = (0..n).map(|_| FilePlan::default()).collect();
                // a single file may also be the only entry of a directory argument
                if n == 1 && rng.chance(1, 3) {
                    case.set("as_dir", 1);
                }
            }
            "sweep-list" => {
                // files inside directory arguments whose listings the simulator owns (H3)
                case.delivery = Delivery {
                    whole: true,
                    ..Delivery::default()
                };
                for _ in 0..4 {
                    let inside = rng.chance(1, 4);
                    super::c17::place_cuts(rng, &mut case, inside);
                    if !case.cuts().is_empty() {
                        break;
                    }
                }
                let n = case.cuts().len() + 1;
                case.files = (0..n).map(|_| FilePlan::default()).collect();
                case.set("layout", rng.range(1, 4) as i64);
                // listing orders: a seeded permutation per directory (two at most)
                case.dirs = (0..2)
                    .map(|_| {
                        let mut order: Vec<usize> = (0..n).collect();
                        rng.shuffle(&mut order);
                        DirPlan {
                            order,
                            ..DirPlan::default()
                        }
                    })
                    .collect();
            }
            "double" => {
                case.rfault = Some(Fault {
                    at: rng.below(len + 1),
                    kind: *rng.pick(&ErrKind::READ_KINDS),
                    sticky: rng.chance(1, 2),
                });
                case.out.fail = Some(Fault {
                    at: rng.below(150),
                    kind: *rng.pick(&ErrKind::WRITE_KINDS),
                    sticky: rng.chance(1, 2),
                });
                if case.delivery.whole {
                    case.delivery.whole = false;
                }
            }
            _ => {}
        }
        case
    }

    fn check(&self, case: &Case, ctx: &mut Ctx) -> Option<Violation> {
        if case.family == "sweep-read-file" || case.family == "file-point" {
            return check_files(case, ctx);
        }
        if case.family == "sweep-list" || case.family == "list-point" {
            return check_lists(case, ctx);
        }
        let input = case.stream();
        let reference = ctx.exec(ref_spec(case, &input));
        match &reference.outcome {
            Outcome::Panic(..) | Outcome::Abort(_) | Outcome::Clap(_) => {
                // a panic without any fault belongs to C05; clap errors never reach go
                ctx.stats.invalid = true;
                ctx.jawk_panic = None;
                return None;
            }
            _ => {}
        }
        let seed = case.param("sweep_seed") as u64;
        match case.family.as_str() {
            "sweep-read" => {
                let len = input.len();
                let offsets = pick_offsets(case, len + 1, ctx.tier, seed, 400, 300);
                for k in offsets {
                    let worlds: &[bool] = if ctx.tier == Tier::Thorough {
                        &[true, false]
                    } else {
                        &[true]
                    };
                    for (wi, _) in worlds.iter().enumerate() {
                        let mut rng = Rng::new(mix(&[seed, k as u64, wi as u64, 1]));
                        let sticky = if ctx.tier == Tier::Thorough {
                            wi == 0
                        } else {
                            rng.chance(1, 2)
                        };
                        let mut p = case.clone();
                        p.family = "point".into();
                        p.delivery = gen_delivery(&mut rng, k);
                        p.delivery.whole = false;
                        p.rfault = Some(Fault {
                            at: k,
                            kind: *rng.pick(&ErrKind::READ_KINDS),
                            sticky,
                        });
                        if k % 8 == 3 {
                            p.set("rerun_reference_after", 1);
                        }
                        if let Some(mut v) = check_point(&p, &input, &reference, ctx) {
                            {
                                let mut p = p;
                                // a sweep is a history of runs cut short in one thread: the point
                                // is reported together with one earlier run of itself
                                p.set("same_run_before", 1);
                                v.reduced = Some(Box::new(p));
                            }
                            return Some(v);
                        }
                    }
                }
                None
            }
            "sweep-write" => {
                let olen = reference.obs.stdout.len();
                let offsets = pick_offsets(case, olen, ctx.tier, seed, 400, 300);
                for k in offsets {
                    let worlds: &[bool] = if ctx.tier == Tier::Thorough {
                        &[true, false]
                    } else {
                        &[true]
                    };
                    for (wi, _) in worlds.iter().enumerate() {
                        let mut rng = Rng::new(mix(&[seed, k as u64, wi as u64, 2]));
                        let sticky = if ctx.tier == Tier::Thorough {
                            wi == 0
                        } else {
                            rng.chance(1, 2)
                        };
                        let mut p = case.clone();
                        p.family = "point".into();
                        p.out = gen_sink_garnish(&mut rng, k);
                        if rng.chance(1, 12) {
                            p.out.zero_at = Some(k);
                        } else {
                            p.out.fail = Some(Fault {
                                at: k,
                                kind: *rng.pick(&ErrKind::WRITE_KINDS),
                                sticky,
                            });
                        }
                        if k % 8 == 5 {
                            p.set("rerun_reference_after", 1);
                        }
                        if let Some(mut v) = check_point(&p, &input, &reference, ctx) {
                            {
                                let mut p = p;
                                // a sweep is a history of runs cut short in one thread: the point
                                // is reported together with one earlier run of itself
                                p.set("same_run_before", 1);
                                v.reduced = Some(Box::new(p));
                            }
                            return Some(v);
                        }
                    }
                }
                // diagnostics stream
                let elen = reference.obs.stderr.len();
                let offsets = pick_offsets(case, elen, ctx.tier, seed ^ 0x5555, 200, 100);
                for k in offsets {
                    let mut rng = Rng::new(mix(&[seed, k as u64, 3]));
                    let mut p = case.clone();
                    p.family = "point".into();
                    p.err = gen_sink_garnish(&mut rng, k);
                    p.err.fail = Some(Fault {
                        at: k,
                        kind: *rng.pick(&ErrKind::WRITE_KINDS),
                        sticky: rng.chance(1, 2),
                    });
                    if let Some(mut v) = check_point(&p, &input, &reference, ctx) {
                        {
                                let mut p = p;
                                // a sweep is a history of runs cut short in one thread: the point
                                // is reported together with one earlier run of itself
                                p.set("same_run_before", 1);
                                v.reduced = Some(Box::new(p));
                            }
                        return Some(v);
                    }
                }
                None
            }
            _ => check_point(case, &input, &reference, ctx),
        }
    }
}

/// Which offsets of 0..n to enumerate: all when small (or thorough), otherwise every piece
/// boundary (both sides) plus a seeded sample.
fn pick_offsets(case: &Case, n: usize, tier: Tier, seed: u64, all_below: usize, sample: usize) -> Vec<usize> {
    if n == 0 {
        return Vec::new();
    }
    if tier == Tier::Thorough || n <= all_below {
        return (0..n).collect();
    }
    let mut v: Vec<usize> = vec![0, n - 1];
    for (s, e) in case.spans() {
        for o in [s.wrapping_sub(1), s, s + 1, e.wrapping_sub(1), e] {
            if o < n {
                v.push(o);
            }
        }
    }
    let mut rng = Rng::new(mix(&[seed, 77]));
    for _ in 0..sample {
        v.push(rng.below(n));
    }
    v.sort_unstable();
    v.dedup();
    v
}

fn first_fault_event(events: &[Event], chan: Chan) -> Option<u32> {
    events
        .iter()
        .find(|e| e.chan == chan && matches!(e.res, Res::Fail(_) | Res::Zero))
        .map(|e| e.seq)
}

/// One explicit fault plan against the reference run.
fn check_point(case: &Case, input: &[u8], reference: &RunOut, ctx: &mut Ctx) -> Option<Violation> {
    ctx.sub_begin();
    if case.param("same_run_before") == 1 {
        // history: the same faulted run once before, in the same thread
        let _ = ctx.exec(case_spec(case, input));
    }
    let r = ctx.exec(case_spec(case, input));
    if case.param("rerun_reference_after") == 1 {
        // history: the fault-free run once more, now that a run was cut short in this thread
        let again = ctx.exec(ref_spec(case, input));
        if again.outcome.class() != reference.outcome.class() || again.obs.stdout != reference.obs.stdout || again.obs.stderr != reference.obs.stderr {
            return viol(
                "C16.history",
                format!(
                    "the fault-free run gives a different result after a run that was cut short by a fault in the same process: {} stdout {} vs before {} stdout {}",
                    again.outcome.describe(),
                    show(&again.obs.stdout),
                    reference.outcome.describe(),
                    show(&reference.obs.stdout)
                ),
            );
        }
    }
    let rd = r.obs.rfault_delivered;
    let wd = r.obs.out_fault_delivered;
    let ed = r.obs.err_fault_delivered;
    let transfers = r.obs.intr_reads + r.obs.short_reads + r.obs.intr_writes + r.obs.short_writes;
    let has_fatal_plan = case.rfault.is_some()
        || case.out.fail.is_some()
        || case.out.zero_at.is_some()
        || case.err.fail.is_some();
    let nontrivial = rd || wd || ed || (!has_fatal_plan && transfers > 0);
    if rd {
        ctx.stats.fault("read.failed", 1);
        if let Some(f) = &case.rfault {
            ctx.stats.fault(&format!("read.failed.{:?}", f.kind), 1);
            ctx.stats.fault(if f.sticky { "read.failed.sticky" } else { "read.failed.recovers" }, 1);
            probe_read_position(case, f.at, input, ctx);
        }
    }
    if wd {
        if case.out.zero_at.is_some() && case.out.fail.is_none() {
            ctx.stats.fault("write.zero", 1);
        } else {
            ctx.stats.fault("write.failed", 1);
            if let Some(f) = &case.out.fail {
                ctx.stats.fault(&format!("write.failed.{:?}", f.kind), 1);
                ctx.stats.fault(if f.sticky { "write.failed.sticky" } else { "write.failed.recovers" }, 1);
            }
        }
        if r.obs.out_fault_offset == 0 {
            ctx.stats.probe("write fault at offset 0");
        }
    }
    if ed {
        ctx.stats.fault("write.failed.stderr", 1);
    }
    if has_fatal_plan && !rd && !wd && !ed {
        ctx.stats.probe("planned fault not delivered (jawk stopped first)");
    }
    ctx.sub_end(nontrivial);

    let class = classify(&case.opts);
    let policy = policy_of(&case.opts);
    if let Outcome::Panic(m, l) = &r.outcome {
        return viol(
            "C16.panic",
            format!("jawk panicked under an I/O fault: {m} at {l} (read fault delivered={rd}, write fault delivered={wd}, stderr fault delivered={ed})"),
        );
    }
    if let Outcome::Abort(why) = &r.outcome {
        let rule = if wd || ed { "C16.write-stops" } else { "C16.read-stops" };
        return viol(rule, format!("run did not stop: {why}"));
    }
    if !rd && !wd && !ed {
        // nothing fatal happened: the run must be indistinguishable from the reference
        let rule = if has_fatal_plan { "C16.undelivered" } else { "C16.transparent" };
        if r.outcome.class() != reference.outcome.class() {
            return viol(
                rule,
                format!(
                    "only EINTR/short transfers were delivered but the result differs: {} vs reference {}",
                    r.outcome.describe(),
                    reference.outcome.describe()
                ),
            );
        }
        if r.obs.stdout != reference.obs.stdout {
            return viol(
                rule,
                format!(
                    "only EINTR/short transfers were delivered but stdout differs at byte {}: {} vs reference {}",
                    common_prefix(&r.obs.stdout, &reference.obs.stdout),
                    show(&r.obs.stdout),
                    show(&reference.obs.stdout)
                ),
            );
        }
        if r.obs.stderr != reference.obs.stderr {
            return viol(
                rule,
                format!(
                    "only EINTR/short transfers were delivered but stderr differs: {} vs reference {}",
                    show(&r.obs.stderr),
                    show(&reference.obs.stderr)
                ),
            );
        }
        return None;
    }
    if rd && !r.outcome.is_err() {
        let f = case.rfault.as_ref().unwrap();
        return viol(
            "C16.read-reported",
            format!(
                "read failed ({:?}) at input offset {} of {} but go returned {}",
                f.kind,
                f.at,
                input.len(),
                r.outcome.describe()
            ),
        );
    }
    if wd && !r.outcome.is_err() {
        return viol(
            "C16.write-reported",
            format!(
                "write to stdout failed at output offset {} but go returned {}",
                r.obs.out_fault_offset,
                r.outcome.describe()
            ),
        );
    }
    if rd {
        let f = case.rfault.as_ref().unwrap();
        if !f.sticky && r.obs.ok_reads_after_rfault > 0 {
            return viol(
                "C16.read-stops",
                format!(
                    "{} successful read(s) were consumed after the read failure at offset {} (the error was skipped)",
                    r.obs.ok_reads_after_rfault, f.at
                ),
            );
        }
    }
    if wd {
        let k = r.obs.out_fault_offset;
        let so = &r.obs.stdout;
        let ro = &reference.obs.stdout;
        if so.len() < k || ro.len() < k || so[..k] != ro[..k] {
            return viol(
                "C16.prefix",
                format!(
                    "bytes accepted before the write failure at {} differ from the fault-free output: {} vs {}",
                    k,
                    show(so),
                    show(ro)
                ),
            );
        }
        if !is_prefix(so, ro) || so.len() - k > ALLOWANCE {
            return viol(
                "C16.write-stops",
                format!(
                    "output written after the write failure at {} does not continue the fault-free output (a row was lost and processing went on): {} vs {}",
                    k,
                    show(&so[k.min(so.len())..]),
                    show(&ro[k.min(ro.len())..])
                ),
            );
        }
        if let Some(seq) = first_fault_event(&r.obs.events, Chan::Out) {
            let later_reads = r
                .obs
                .events
                .iter()
                .filter(|e| e.seq > seq && e.chan == Chan::Read && matches!(e.res, Res::N(n) if n > 0))
                .count();
            if later_reads > 0 {
                return viol(
                    "C16.write-stops",
                    format!("{later_reads} read(s) of further input after the write failure at output offset {k}"),
                );
            }
        }
    }
    if rd && !wd && class != Class::Buffering {
        let so = &r.obs.stdout;
        let ro = &reference.obs.stdout;
        if !is_prefix(so, ro) {
            let cp = common_prefix(so, ro);
            let mut ok = false;
            if policy == Policy::Stdout {
                // tolerate one final diagnostic line about the failure itself
                let ls = so[..cp].iter().rposition(|b| *b == b'\n').map_or(0, |p| p + 1);
                let tail = &so[ls..];
                let nl = tail.iter().filter(|b| **b == b'\n').count();
                ok = tail.starts_with(b"error:") && nl <= 1 && is_prefix(&so[..ls], ro);
            }
            if !ok {
                return viol(
                    "C16.prefix",
                    format!(
                        "streaming pipeline: stdout after a read failure at {} is not a prefix of the fault-free stdout (first difference at byte {cp}): {} vs {}",
                        case.rfault.as_ref().map_or(0, |f| f.at),
                        show(so),
                        show(ro)
                    ),
                );
            }
        }
    }
    if ed && !rd && !wd {
        let so = &r.obs.stdout;
        let ro = &reference.obs.stdout;
        if r.outcome.is_ok() && reference.outcome.is_ok() {
            if so != ro {
                return viol(
                    "C16.prefix",
                    format!("diagnostics stream failed, run reported success, but stdout differs: {} vs {}", show(so), show(ro)),
                );
            }
        } else if class != Class::Buffering && !is_prefix(so, ro) {
            return viol(
                "C16.prefix",
                format!("diagnostics stream failed; stdout is not a prefix of the fault-free stdout: {} vs {}", show(so), show(ro)),
            );
        }
    }
    None
}

/// Rare-condition probes: where in the token structure did the failing read land?
fn probe_read_position(case: &Case, at: usize, input: &[u8], ctx: &mut Ctx) {
    if at == 0 {
        ctx.stats.probe("read fault at offset 0");
    }
    if at == input.len() {
        ctx.stats.probe("read fault instead of EOF");
    }
    for (p, (s, e)) in case.pieces.iter().zip(case.spans()) {
        if at > s && at < e {
            match p.kind {
                Kind::Rec => {
                    ctx.stats.probe("read fault inside a value");
                    let b = &p.bytes.0;
                    let i = at - s;
                    if b[i - 1] == b'\\' {
                        ctx.stats.probe("read fault inside a string escape");
                    }
                    if b[i - 1].is_ascii_digit() && b[i].is_ascii_digit() {
                        ctx.stats.probe("read fault inside a number");
                    }
                }
                Kind::Garbage => ctx.stats.probe("read fault inside garbage"),
                _ => {}
            }
        } else if at == e && p.kind == Kind::Rec {
            ctx.stats.probe("read fault on the look-ahead byte after a value");
        }
    }
}

// ---------------------------------------------------------------------------------------
// Read failures on file arguments (hook H2: the file opener seam)

fn check_files(case: &Case, ctx: &mut Ctx) -> Option<Violation> {
    let datas = split_files(case);
    if case.files.len() != datas.len() {
        ctx.stats.invalid = true;
        return None;
    }
    if case.opts.iter().flatten().any(|t| t.contains("&file-name")) {
        ctx.stats.invalid = true;
        return None;
    }
    if ctx.name_style == 3 && datas.iter().map(Vec::len).sum::<usize>() > 4000 {
        // (a sweep over a file of many KB under a path of 330 bytes costs ten times the
        // same sweep under a short name - seconds for one scenario; the long names stay
        // with the small files)
        ctx.name_style = 1;
    }
    let as_dir = case.param("as_dir") == 1 && datas.len() == 1;
    let dir = if as_dir { ctx.fresh_dir() } else { None };
    let paths = match &dir {
        Some(d) => vec![format!("{d}/sub/only.json")],
        None => ctx.fresh_paths(datas.len()),
    };
    if let Some(d) = &dir {
        // one level of nesting: the directory holds a directory that holds the file
        let _ = std::fs::create_dir_all(format!("{d}/sub"));
        ctx.stats.probe("file reached through a (nested) directory argument");
    }
    let res = check_files_in(case, ctx, &datas, &paths, dir.as_deref());
    if let Some(d) = &dir {
        let _ = std::fs::remove_dir_all(d);
    }
    res
}

fn files_run(case: &Case, paths: &[String], datas: &[Vec<u8>], plans: &[FilePlan], dir: Option<&str>) -> RunSpec {
    match dir {
        Some(d) => sim_dir_spec(case, d, paths, datas, plans),
        None => sim_files_spec(case, paths, datas, plans),
    }
}

fn check_files_in(case: &Case, ctx: &mut Ctx, datas: &[Vec<u8>], paths: &[String], dir: Option<&str>) -> Option<Violation> {
    let mut refcase = case.clone();
    refcase.out = SinkPlan::default();
    refcase.err = SinkPlan::default();
    let reference = ctx.exec(files_run(&refcase, paths, datas, &[], dir));
    match &reference.outcome {
        Outcome::Panic(..) | Outcome::Abort(_) | Outcome::Clap(_) => {
            ctx.stats.invalid = true;
            ctx.jawk_panic = None;
            return None;
        }
        _ => {}
    }
    if case.family == "file-point" {
        return check_file_point(case, paths, datas, &reference, ctx, dir);
    }
    let seed = case.param("sweep_seed") as u64;
    for (j, d) in datas.iter().enumerate() {
        // every offset of small files, a sample of larger ones; plus a failing open
        let n = d.len() + 1;
        let mut offsets: Vec<usize> = if (ctx.tier == Tier::Thorough && n <= 2000) || n <= 200 {
            (0..n).collect()
        } else {
            let mut rng = Rng::new(mix(&[seed, j as u64, 91]));
            let mut v: Vec<usize> = vec![0, n - 1, n.saturating_sub(2)];
            for _ in 0..(if n > 2000 { 40 } else { 150 }) {
                v.push(rng.below(n));
            }
            v.sort_unstable();
            v.dedup();
            v
        };
        offsets.push(usize::MAX); // the open itself fails
        for k in offsets {
            let mut rng = Rng::new(mix(&[seed, j as u64, k as u64, 5]));
            let mut p = case.clone();
            p.family = "file-point".into();
            p.files = datas.iter().map(|d| gen_file_plan(&mut rng, d.len())).collect();
            if k == usize::MAX {
                p.files[j].open_fails = Some(*rng.pick(&[ErrKind::PermissionDenied, ErrKind::Other, ErrKind::TimedOut]));
            } else {
                p.files[j].eintr.retain(|e| e.0 <= k);
                p.files[j].fault = Some(Fault {
                    at: k,
                    kind: *rng.pick(&ErrKind::READ_KINDS),
                    sticky: rng.chance(1, 2),
                });
            }
            if let Some(mut v) = check_file_point(&p, paths, datas, &reference, ctx, dir) {
                {
                                let mut p = p;
                                // a sweep is a history of runs cut short in one thread: the point
                                // is reported together with one earlier run of itself
                                p.set("same_run_before", 1);
                                v.reduced = Some(Box::new(p));
                            }
                return Some(v);
            }
        }
    }
    None
}

fn check_file_point(case: &Case, paths: &[String], datas: &[Vec<u8>], reference: &RunOut, ctx: &mut Ctx, dir: Option<&str>) -> Option<Violation> {
    ctx.sub_begin();
    if case.param("same_run_before") == 1 {
        let _ = ctx.exec(files_run(case, paths, datas, &case.files, dir));
    }
    let r = ctx.exec(files_run(case, paths, datas, &case.files, dir));
    let planned: Vec<usize> = (0..case.files.len())
        .filter(|i| case.files[*i].fault.is_some() || case.files[*i].open_fails.is_some())
        .collect();
    let delivered: Vec<usize> = planned
        .iter()
        .copied()
        .filter(|i| r.obs.files.get(*i).map_or(false, |f| f.fault_delivered))
        .collect();
    let rd = !delivered.is_empty();
    let transfers = r.obs.intr_reads + r.obs.short_reads;
    ctx.sub_end(rd || (planned.is_empty() && transfers > 0));
    if rd {
        let j = delivered[0];
        if case.files[j].open_fails.is_some() {
            ctx.stats.fault("file.open.failed", 1);
        } else if let Some(f) = &case.files[j].fault {
            ctx.stats.fault("file.read.failed", 1);
            ctx.stats.fault(if f.sticky { "file.read.failed.sticky" } else { "file.read.failed.recovers" }, 1);
            if f.at == datas[j].len() {
                ctx.stats.probe("file read fault instead of EOF");
            }
            if f.at == 0 {
                ctx.stats.probe("file read fault at offset 0");
            }
            if f.at >= 8192 {
                ctx.stats.probe("file read fault beyond jawk's first 8 KiB buffer fill");
            }
        }
        if j > 0 {
            ctx.stats.probe("read fault in a later file");
        }
        if j + 1 < case.files.len() {
            ctx.stats.probe("read fault with further files pending");
        }
    } else if !planned.is_empty() {
        ctx.stats.probe("planned file fault not delivered (jawk stopped first)");
    }
    let so = strip_paths(&r.obs.stdout, paths);
    let ro = strip_paths(&reference.obs.stdout, paths);
    if let Outcome::Panic(m, l) = &r.outcome {
        return viol("C16.panic", format!("jawk panicked under a file read fault: {m} at {l}"));
    }
    if let Outcome::Abort(why) = &r.outcome {
        return viol("C16.read-stops", format!("run did not stop after a file read failure: {why}"));
    }
    if !rd {
        let rule = if planned.is_empty() { "C16.transparent" } else { "C16.undelivered" };
        if r.outcome.class() != reference.outcome.class() || so != ro || strip_paths(&r.obs.stderr, paths) != strip_paths(&reference.obs.stderr, paths) {
            return viol(
                rule,
                format!(
                    "no failure was delivered on any file (only EINTR/short reads) but the run differs: {} stdout {} vs reference {} stdout {}",
                    r.outcome.describe(),
                    show(&so),
                    reference.outcome.describe(),
                    show(&ro)
                ),
            );
        }
        return None;
    }
    let j = delivered[0];
    let what = if case.files[j].open_fails.is_some() {
        format!("opening file {j} of {} failed", case.files.len())
    } else {
        format!(
            "reading file {j} of {} failed at offset {} of {}",
            case.files.len(),
            case.files[j].fault.as_ref().map_or(0, |f| f.at),
            datas[j].len()
        )
    };
    if !r.outcome.is_err() {
        return viol("C16.read-reported", format!("{what} but go returned {}", r.outcome.describe()));
    }
    let recovers = case.files[j].fault.as_ref().map_or(true, |f| !f.sticky);
    if recovers && r.obs.ok_reads_after_any_rfault > 0 {
        return viol(
            "C16.read-stops",
            format!("{what}; {} successful read(s) were consumed afterwards (the error was skipped)", r.obs.ok_reads_after_any_rfault),
        );
    }
    if r.obs.opens_after_any_rfault > 0 {
        return viol(
            "C16.read-stops",
            format!("{what}; {} further file(s) were opened afterwards", r.obs.opens_after_any_rfault),
        );
    }
    if classify(&case.opts) != Class::Buffering && !is_prefix(&so, &ro) {
        let cp = common_prefix(&so, &ro);
        let mut ok = false;
        if policy_of(&case.opts) == Policy::Stdout {
            let ls = so[..cp].iter().rposition(|b| *b == b'\n').map_or(0, |p| p + 1);
            let tail = &so[ls..];
            let nl = tail.iter().filter(|b| **b == b'\n').count();
            ok = tail.starts_with(b"error:") && nl <= 1 && is_prefix(&so[..ls], &ro);
        }
        if !ok {
            return viol(
                "C16.prefix",
                format!("{what}; streaming pipeline: stdout is not a prefix of the fault-free stdout (first difference at byte {cp}): {} vs {}", show(&so), show(&ro)),
            );
        }
    }
    None
}

// ---------------------------------------------------------------------------------------
// Failures of directory listings (hook H3: the directory lister seam)

fn check_lists(case: &Case, ctx: &mut Ctx) -> Option<Violation> {
    let datas = split_files(case);
    if case.files.len() != datas.len() || case.opts.iter().flatten().any(|t| t.contains("&file-name")) {
        ctx.stats.invalid = true;
        return None;
    }
    let root = ctx.fresh_dir()?;
    let lay = lay_out(&root, datas.len(), case.param("layout"), ctx.name_style);
    let res = check_lists_in(case, ctx, &datas, &lay);
    let _ = std::fs::remove_dir_all(&root);
    res
}

fn check_lists_in(case: &Case, ctx: &mut Ctx, datas: &[Vec<u8>], lay: &DirLayout) -> Option<Violation> {
    // the reference: same layout, same listing orders, nothing fails
    let calm: Vec<DirPlan> = case
        .dirs
        .iter()
        .map(|d| DirPlan {
            order: d.order.clone(),
            ..DirPlan::default()
        })
        .collect();
    let mut refcase = case.clone();
    refcase.out = SinkPlan::default();
    refcase.err = SinkPlan::default();
    let reference = ctx.exec(sim_layout_spec(&refcase, lay, datas, &[], &calm));
    match &reference.outcome {
        Outcome::Panic(..) | Outcome::Abort(_) | Outcome::Clap(_) => {
            ctx.stats.invalid = true;
            ctx.jawk_panic = None;
            return None;
        }
        _ => {}
    }
    if case.family == "list-point" {
        return check_list_point(case, lay, datas, &reference, ctx);
    }
    let seed = case.param("sweep_seed") as u64;
    for (j, (_, entries)) in lay.dirs.iter().enumerate() {
        // the listing cannot be opened; every position of the listing fails, the one that
        // would have reported its end included
        let mut points: Vec<usize> = (0..=entries.len()).collect();
        points.push(usize::MAX);
        for k in points {
            let worlds: &[bool] = if ctx.tier == Tier::Thorough { &[true, false] } else { &[true] };
            for (wi, _) in worlds.iter().enumerate() {
                let mut rng = Rng::new(mix(&[seed, j as u64, k as u64, wi as u64, 6]));
                let mut p = case.clone();
                p.family = "list-point".into();
                p.files = datas.iter().map(|d| gen_file_plan(&mut rng, d.len())).collect();
                while p.dirs.len() <= j {
                    p.dirs.push(DirPlan::default());
                }
                let kind = *rng.pick(&[ErrKind::Other, ErrKind::PermissionDenied, ErrKind::TimedOut, ErrKind::InvalidData, ErrKind::UnexpectedEof, ErrKind::ConnectionReset]);
                if k == usize::MAX {
                    p.dirs[j].open_fails = Some(kind);
                } else {
                    p.dirs[j].entry_fault = Some(Fault {
                        at: k,
                        kind,
                        sticky: if ctx.tier == Tier::Thorough { wi == 0 } else { rng.chance(1, 2) },
                    });
                }
                if let Some(mut v) = check_list_point(&p, lay, datas, &reference, ctx) {
                    {
                                let mut p = p;
                                // a sweep is a history of runs cut short in one thread: the point
                                // is reported together with one earlier run of itself
                                p.set("same_run_before", 1);
                                v.reduced = Some(Box::new(p));
                            }
                    return Some(v);
                }
            }
        }
    }
    None
}

fn check_list_point(case: &Case, lay: &DirLayout, datas: &[Vec<u8>], reference: &RunOut, ctx: &mut Ctx) -> Option<Violation> {
    ctx.sub_begin();
    if case.param("same_run_before") == 1 {
        let _ = ctx.exec(sim_layout_spec(case, lay, datas, &case.files, &case.dirs));
    }
    let r = ctx.exec(sim_layout_spec(case, lay, datas, &case.files, &case.dirs));
    let planned: Vec<usize> = (0..case.dirs.len().min(lay.dirs.len()))
        .filter(|j| case.dirs[*j].open_fails.is_some() || case.dirs[*j].entry_fault.is_some())
        .collect();
    let delivered: Vec<usize> = planned
        .iter()
        .copied()
        .filter(|j| r.obs.dirs.get(*j).map_or(false, |d| d.fault_delivered))
        .collect();
    let ld = !delivered.is_empty();
    let transfers = r.obs.intr_reads + r.obs.short_reads;
    ctx.sub_end(ld || (planned.is_empty() && transfers > 0));
    if ld {
        let j = delivered[0];
        if case.dirs[j].open_fails.is_some() {
            ctx.stats.fault("dir.open.failed", 1);
        } else if let Some(f) = &case.dirs[j].entry_fault {
            ctx.stats.fault("dir.entry.failed", 1);
            ctx.stats.fault(if f.sticky { "dir.entry.failed.sticky" } else { "dir.entry.failed.recovers" }, 1);
            if f.at == 0 {
                ctx.stats.probe("listing fault on the first entry");
            }
            if f.at == lay.dirs[j].1.len() {
                ctx.stats.probe("listing fault instead of the end of the listing");
            }
            if f.at > 0 && f.at < lay.dirs[j].1.len() {
                ctx.stats.probe("listing fault between two entries");
            }
        }
        if j > 0 {
            ctx.stats.probe("listing fault in a second (or nested) directory");
        }
        if !r.obs.stdout.is_empty() {
            ctx.stats.probe("listing fault after rows were written");
        }
    } else if !planned.is_empty() {
        ctx.stats.probe("planned listing fault not delivered (jawk stopped first)");
    }
    let so = strip_paths(&r.obs.stdout, &lay.paths);
    let ro = strip_paths(&reference.obs.stdout, &lay.paths);
    if let Outcome::Panic(m, l) = &r.outcome {
        return viol("C16.panic", format!("jawk panicked under a failing directory listing: {m} at {l}"));
    }
    if let Outcome::Abort(why) = &r.outcome {
        return viol("C16.read-stops", format!("run did not stop after a failing directory listing: {why}"));
    }
    if !ld {
        let rule = if planned.is_empty() { "C16.transparent" } else { "C16.undelivered" };
        if r.outcome.class() != reference.outcome.class() || so != ro || strip_paths(&r.obs.stderr, &lay.paths) != strip_paths(&reference.obs.stderr, &lay.paths) {
            return viol(
                rule,
                format!(
                    "no listing failure was delivered (only EINTR/short reads on the files) but the run differs: {} stdout {} vs reference {} stdout {}",
                    r.outcome.describe(),
                    show(&so),
                    reference.outcome.describe(),
                    show(&ro)
                ),
            );
        }
        return None;
    }
    let j = delivered[0];
    let what = if case.dirs[j].open_fails.is_some() {
        format!("listing directory {j} of {} could not be opened", lay.dirs.len())
    } else {
        format!(
            "listing directory {j} of {} failed at entry {} of {}",
            lay.dirs.len(),
            case.dirs[j].entry_fault.as_ref().map_or(0, |f| f.at),
            lay.dirs[j].1.len()
        )
    };
    if !r.outcome.is_err() {
        return viol("C16.read-reported", format!("{what} but go returned {}", r.outcome.describe()));
    }
    if r.obs.ok_reads_after_any_rfault > 0 {
        return viol(
            "C16.read-stops",
            format!("{what}; {} successful read(s) were consumed afterwards (the error was skipped)", r.obs.ok_reads_after_any_rfault),
        );
    }
    if r.obs.opens_after_any_rfault > 0 {
        return viol(
            "C16.read-stops",
            format!("{what}; {} further input(s) were opened afterwards", r.obs.opens_after_any_rfault),
        );
    }
    if classify(&case.opts) != Class::Buffering && !is_prefix(&so, &ro) {
        let cp = common_prefix(&so, &ro);
        let mut ok = false;
        if policy_of(&case.opts) == Policy::Stdout {
            let ls = so[..cp].iter().rposition(|b| *b == b'\n').map_or(0, |p| p + 1);
            let tail = &so[ls..];
            let nl = tail.iter().filter(|b| **b == b'\n').count();
            ok = tail.starts_with(b"error:") && nl <= 1 && is_prefix(&so[..ls], &ro);
        }
        if !ok {
            return viol(
                "C16.prefix",
                format!("{what}; streaming pipeline: stdout is not a prefix of the fault-free stdout (first difference at byte {cp}): {} vs {}", show(&so), show(&ro)),
            );
        }
    }
    None
}
