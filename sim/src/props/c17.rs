//! C17 — delivery-independent input; files stay separate; input context is exact.

use super::{Budget, Property, ShrinkCaps};
use crate::case::*;
use crate::common::*;
use crate::gen::*;
use crate::rng::Rng;
use crate::run::*;
use crate::world::FilePlan;
use crate::world::*;

pub struct C17;

const CONTEXT_SELECTS: &[(&str, &str)] = &[
    ("&index", "i"),
    ("&index-in-file", "f"),
    ("&started-at-line-number", "sl"),
    ("&started-at-char-number", "sc"),
    ("&ended-at-line-number", "el"),
    ("&ended-at-char-number", "ec"),
    ("&file-name", "fn"),
];

/// Expressions whose value is the value of the selector inside them.
const CONTEXT_WRAPPERS: &[&str] = &["{}", "(set \"v\" 1 {})", "(define \"m\" . {})", "(| . {})", "(? true {} 0)", "(set \"v\" {} :v)"];

impl Property for C17 {
    fn id(&self) -> &'static str {
        "C17"
    }
    fn level(&self) -> &'static str {
        "exploration"
    }
    fn rule(&self) -> &'static str {
        "A scenario = one generated stream (clean or noisy, optionally with touching tokens, occasionally > 8 KiB) x one pipeline x several deliveries of the same bytes, all executed by the real code and compared: family 'delivery' = whole slice vs raw 1-byte SimSource with EINTR vs BufReader(cap in {1,2,3,5,8,64,8192}) over SimSource with seeded chunk limits and EINTR vs one real file; 'files-concat' = partition into 1..4 real files at gaps vs the unpartitioned stream on stdin (any pipeline class), also as chunked files behind the opener seam, with names that are not in sorted order and a directory among the arguments, and with the first file named again at the end; 'files-separate' = partition with at least one cut inside a value, stateless pipeline, vs header + sum of solo runs per file; 'context' = the seven &-selectors checked against the byte offsets the harness knows for the records it generated (stdin with seeded chunking, or 1..4 files), with --only-objects-and-arrays on/off, optionally a --set stage, junk glued to the next value, raw line feeds inside strings, a directory argument whose listing order is read off the rows, and a re-check behind two sorters (constant key + &index descending = the rows in reverse). evaluations = jawk executions. A scenario is non-trivial iff at least two genuinely different deliveries were compared (chunk limits, EINTR, buffer capacity, file partition) or at least one context row was checked; distinct = distinct abstract traces of non-trivial scenarios. Round 7: context family with one gap of 65530..66200 blanks or line feeds (columns/lines beyond 16 bits); files behind symbolic links to directories; paths with commas, blanks and multi-byte characters."
    }
    fn assumptions(&self) -> Vec<String> {
        vec![
            "stdin deliveries go through the SimSource stub; files are real regular files on /dev/shm (regular files never short-read), read through jawk's own BufReader<File>".into(),
            "directories are never passed (directory listing order is outside the property)".into(),
            "positions are byte based: off(line, col) = start of that line (lines split at LF only) + col - 1".into(),
            "the reference for every comparison is another execution of the same jawk build".into(),
        ]
    }
    fn shrink_caps(&self) -> ShrinkCaps {
        ShrinkCaps {
            drop_pieces: true,
            simplify_records: true,
            shrink_raw: false,
            drop_opts: true,
        }
    }
    fn budget(&self, tier: Tier) -> Budget {
        match tier {
            Tier::Quick => Budget {
                seconds: 60,
                max_cases: 40_000,
            },
            Tier::Thorough => Budget {
                seconds: 600,
                max_cases: 3_000_000,
            },
        }
    }

    fn generate(&self, rng: &mut Rng, tier: Tier) -> Case {
        let family = match rng.below(10) {
            0..=2 => "delivery",
            3..=4 => "files-concat",
            5..=6 => "files-separate",
            _ => "context",
        };
        let mut case = Case::new("C17", family);
        let big = rng.chance(1, 25);
        let noisy = rng.chance(1, 3);
        let max_records = if big {
            300
        } else if tier == Tier::Thorough {
            40
        } else {
            14
        };
        let w = StreamWish {
            min_records: if big { 150 } else { 0 },
            max_records,
            noise_eighths: if noisy { 2 } else { 0 },
            allow_touch: family != "context" || rng.chance(1, 6),
            spell_level: 1,
            allow_big: true,
            schema_only: false,
        };
        case.pieces = gen_stream(rng, &w);
        if noisy && matches!(family, "context" | "delivery") && rng.chance(1, 3) {
            // junk glued to the value that follows it (a stray comma or bracket between
            // values): the trailing whitespace of a garbage region is removed
            for i in 0..case.pieces.len().saturating_sub(1) {
                if case.pieces[i].kind == Kind::Garbage && case.pieces[i + 1].kind == Kind::Rec && rng.chance(2, 3) {
                    let b = &mut case.pieces[i].bytes.0;
                    while b.last().map_or(false, |c| matches!(c, b' ' | b'\t' | b'\n' | b'\r')) {
                        b.pop();
                    }
                    case.pieces[i].tag = "glued".into();
                }
            }
        }
        if family == "context" && rng.chance(1, 6) {
            // lenient input: a raw line feed inside a string (jawk accepts it; RFC 8259 does
            // not). Lines are counted by newlines wherever they are.
            for p in case.pieces.iter_mut() {
                if p.kind == Kind::Rec {
                    let (b, n) = raw_line_feeds(&p.bytes.0);
                    if n > 0 {
                        p.bytes.0 = b;
                        p.tag = "rawlf".into();
                    }
                }
            }
        }
        if family == "context" && rng.chance(1, 30) {
            // one gap of more than 65536 blanks (everything after it on the same line) or of
            // as many line feeds: columns and lines beyond what sixteen bits count
            let gaps: Vec<usize> = (0..case.pieces.len()).filter(|i| case.pieces[*i].kind == Kind::Gap).collect();
            if !gaps.is_empty() {
                let g = *rng.pick(&gaps);
                let n = rng.range(65_530, 66_200);
                let blanks = rng.chance(2, 3);
                case.pieces[g].bytes.0 = vec![if blanks { b' ' } else { b'\n' }; n];
                if blanks {
                    for p in case.pieces.iter_mut().skip(g + 1) {
                        if p.kind == Kind::Gap {
                            for b in p.bytes.0.iter_mut() {
                                if *b == b'\n' || *b == b'\r' {
                                    *b = b' ';
                                }
                            }
                        }
                    }
                }
                case.set("wide", 1);
            }
        }
        if family == "context" && rng.chance(1, 500) {
            // a crowd: more values (and lines) than sixteen bits count, tiny ones, one per
            // line, on stdin in one piece; ordinals and line numbers only
            let n = rng.range(65_600, 66_100);
            let v: &[u8] = *rng.pick(&[&b"7"[..], b"[]", b"{}", b"\"a\""]);
            case.pieces.clear();
            for i in 0..n {
                case.pieces.push(Piece::rec(v.to_vec(), i as u32));
                case.pieces.push(Piece::gap(vec![b'\n']));
            }
            case.opts = vec![
                vec!["--select".into(), "&index=i".into()],
                vec!["--select".into(), "&index-in-file=f".into()],
                vec!["--select".into(), "&started-at-line-number=sl".into()],
                vec!["--select".into(), "&ended-at-line-number=el".into()],
            ];
            case.set("files", 0);
            case.set("max_events", 8_000_000);
            case.delivery = Delivery {
                whole: true,
                ..Delivery::default()
            };
            return case;
        }
        match family {
            "context" => {
                if rng.chance(1, 5) {
                    // a variables stage in front of the selections must not lose the context
                    case.opts.push(vec!["--set".into(), (*rng.pick(&["one=1", "@inc=(+ . 1)", "name=\"N\""])).to_string()]);
                }
                // one scenario in four spells the selectors inside expressions that hand their
                // value through unchanged (the body of a set or define, a pipe, a condition)
                let wrapped = rng.chance(1, 4);
                for (sel, name) in CONTEXT_SELECTS {
                    let e = if wrapped { rng.pick(CONTEXT_WRAPPERS).replace("{}", sel) } else { (*sel).to_string() };
                    case.opts.push(vec!["--select".into(), format!("{e}={name}")]);
                }
                if rng.chance(1, 3) {
                    case.opts.push(vec!["--only-objects-and-arrays".into()]);
                }
                if rng.chance(1, 5) {
                    // skipped values still count: the first row printed has &index = K
                    case.opts.push(vec![format!("--skip={}", rng.range(1, 3))]);
                }
                if noisy && rng.chance(1, 2) {
                    case.opts.push(policy_opt(*rng.pick(&[Policy::Stderr, Policy::Ignore])));
                }
                // stdin with seeded chunking, or files
                if rng.chance(1, 2) {
                    let len = case.stream().len();
                    case.delivery = gen_delivery(rng, len);
                    case.set("files", 0);
                } else {
                    case.set("files", 1);
                    case.set("simfiles", i64::from(rng.chance(1, 2)));
                    // the files as the entries of one directory argument: the order in which
                    // they are read is the file system's, everything else is still decided
                    case.set("as_dir", i64::from(rng.chance(1, 4)));
                    place_cuts(rng, &mut case, false);
                }
            }
            "files-separate" => {
                let mut wish = PipeWish::any();
                wish.max_class = Class::Stateless;
                wish.allow_corpus = false;
                case.opts = gen_pipe(rng, &wish).opts;
                if noisy && rng.chance(1, 2) {
                    case.opts.push(policy_opt(Policy::Stderr));
                }
                place_cuts(rng, &mut case, true);
            }
            "files-concat" => {
                let mut wish = PipeWish::any();
                wish.allow_corpus = false;
                case.opts = gen_pipe(rng, &wish).opts;
                if rng.chance(1, 3) {
                    case.opts.push(policy_opt(*rng.pick(&[Policy::Panic, Policy::Stderr])));
                }
                place_cuts(rng, &mut case, false);
            }
            _ => {
                let mut wish = PipeWish::any();
                wish.allow_corpus = false;
                case.opts = gen_pipe(rng, &wish).opts;
                if rng.chance(1, 2) {
                    case.opts.push(policy_opt(*rng.pick(&[
                        Policy::Panic,
                        Policy::Stderr,
                        Policy::Stdout,
                        Policy::Ignore,
                    ])));
                }
                if rng.chance(1, 5) {
                    // positions must not depend on chunking either
                    case.opts.push(vec!["--select".into(), "&ended-at-char-number=ec".into()]);
                    case.opts.push(vec!["--select".into(), "&started-at-line-number=sl".into()]);
                    case.opts.retain(|o| o[0] != "--output-style=csv" && o[0] != "--headers");
                }
                case.set("dseed", (rng.next_u64() >> 1) as i64);
            }
        }
        case
    }

    fn check(&self, case: &Case, ctx: &mut Ctx) -> Option<Violation> {
        match case.family.as_str() {
            "delivery" => check_delivery(case, ctx),
            "files-concat" => check_files_concat(case, ctx),
            "files-separate" => check_files_separate(case, ctx),
            "context" => check_context(case, ctx),
            "delivery-one" => check_delivery_one(case, ctx),
            _ => None,
        }
    }
}

/// Put 0..3 file boundaries on the pieces. `inside_value`: at least one strictly inside a record.
pub fn place_cuts(rng: &mut Rng, case: &mut Case, inside_value: bool) {
    let n = case.pieces.len();
    if n == 0 {
        return;
    }
    let cuts = rng.range(if inside_value { 1 } else { 0 }, 3);
    let mut placed_inside = false;
    for c in 0..cuts {
        let want_inside = inside_value && (c == 0 || rng.chance(1, 3));
        if want_inside {
            let recs: Vec<usize> = (0..n)
                .filter(|i| case.pieces[*i].kind == Kind::Rec && case.pieces[*i].bytes.0.len() >= 2)
                .collect();
            if !recs.is_empty() {
                let i = *rng.pick(&recs);
                let l = case.pieces[i].bytes.0.len();
                case.pieces[i].cut = Some(rng.range(1, l - 1));
                placed_inside = true;
                continue;
            }
        }
        // at a gap: inside a Gap piece, or at the start of any piece
        let i = rng.below(n);
        let l = case.pieces[i].bytes.0.len();
        if case.pieces[i].cut.is_some() {
            continue;
        }
        case.pieces[i].cut = Some(if case.pieces[i].kind == Kind::Gap {
            rng.below(l + 1)
        } else {
            0
        });
    }
    let _ = placed_inside;
}

struct FilesRun {
    out: RunOut,
    paths: Vec<String>,
}

fn run_on_files(case: &Case, files: &[Vec<u8>], ctx: &mut Ctx) -> FilesRun {
    let mut paths = Vec::new();
    for f in files {
        let p = ctx.fresh_path("f");
        let _ = std::fs::write(&p, f);
        paths.push(p.to_string_lossy().to_string());
    }
    let mut argv = case.argv();
    argv.push("--".into());
    argv.extend(paths.iter().cloned());
    let mut spec = RunSpec::plain(&argv, b"");
    spec.hash_seed = case.hash_seeds.first().copied();
    let out = ctx.exec(spec);
    for p in &paths {
        let _ = std::fs::remove_file(p);
    }
    FilesRun { out, paths }
}

fn uses_context(case: &Case) -> bool {
    case.opts.iter().flatten().any(|t| t.contains('&'))
}

fn compare(rule: &str, what: &str, a: &RunOut, b: &RunOut, stderr_too: bool) -> Option<Violation> {
    if let Outcome::Abort(w) = &a.outcome {
        return viol(rule, format!("{what}: run aborted by the simulator: {w}"));
    }
    if a.outcome.class() != b.outcome.class() {
        return viol(
            rule,
            format!(
                "{what}: result {} differs from the reference delivery's {}",
                a.outcome.describe(),
                b.outcome.describe()
            ),
        );
    }
    if a.obs.stdout != b.obs.stdout {
        return viol(
            rule,
            format!(
                "{what}: stdout differs at byte {}: {} vs reference {}",
                common_prefix(&a.obs.stdout, &b.obs.stdout),
                show(&a.obs.stdout),
                show(&b.obs.stdout)
            ),
        );
    }
    if stderr_too && a.obs.stderr != b.obs.stderr {
        return viol(
            rule,
            format!(
                "{what}: stderr differs: {} vs reference {}",
                show(&a.obs.stderr),
                show(&b.obs.stderr)
            ),
        );
    }
    None
}

fn check_delivery(case: &Case, ctx: &mut Ctx) -> Option<Violation> {
    let input = case.stream();
    let d0 = ctx.exec(ref_spec(case, &input));
    if matches!(d0.outcome, Outcome::Panic(..) | Outcome::Clap(_)) {
        ctx.stats.invalid = true;
        ctx.jawk_panic = None;
        return None;
    }
    let mut rng = Rng::new(case.param("dseed") as u64);
    let n = if ctx.tier == Tier::Thorough { 6 } else { 4 };
    let mut different = 0;
    for i in 0..n {
        let mut d = gen_delivery(&mut rng, input.len());
        d.whole = false;
        if i == 0 {
            // D1: raw 1-byte requests with EINTR
            d.bufcap = None;
            d.chunks = vec![1];
            if d.eintr.is_empty() {
                d.eintr.push((input.len() / 2, 2));
            }
        }
        let mut c = case.clone();
        c.delivery = d;
        let r = ctx.exec(case_spec(&c, &input));
        if r.obs.intr_reads > 0 {
            ctx.stats.probe("delivery with EINTR");
        }
        if r.obs.short_reads > 0 {
            ctx.stats.probe("delivery with short reads");
        }
        if c.delivery.bufcap.is_some() {
            ctx.stats.probe("delivery through harness BufReader");
        }
        different += 1;
        if let Some(mut v) = compare(
            "C17.delivery",
            &format!("stdin delivery {:?}", c.delivery),
            &r,
            &d0,
            true,
        ) {
            c.family = "delivery-one".into();
            v.reduced = Some(Box::new(c));
            return Some(v);
        }
    }
    // D3: one real file (the file name appears in locations only)
    if !uses_context(case) || !case.opts.iter().flatten().any(|t| t.contains("&file-name")) {
        let fr = run_on_files(case, &[input.clone()], ctx);
        let mut f = fr.out;
        f.obs.stderr = strip_paths(&f.obs.stderr, &fr.paths);
        f.obs.stdout = strip_paths(&f.obs.stdout, &fr.paths);
        if input.len() > 8192 {
            ctx.stats.probe("file larger than the 8 KiB BufReader");
        }
        if let Some(v) = compare("C17.delivery", "one real file vs stdin", &f, &d0, true) {
            return Some(v);
        }
        // D3': the same file behind the opener seam (hook H2), delivered in seeded chunks
        // with EINTR underneath jawk's own BufReader (a file on a pipe, FUSE or network mount)
        let plan = gen_file_plan(&mut rng, input.len());
        let paths = ctx.fresh_paths(1);
        let mut sf = ctx.exec(sim_files_spec(case, &paths, &[input.clone()], &[plan.clone()]));
        if sf.obs.short_reads + sf.obs.intr_reads > 0 {
            ctx.stats.probe("file argument delivered in chunks / with EINTR");
        }
        sf.obs.stderr = strip_paths(&sf.obs.stderr, &paths);
        sf.obs.stdout = strip_paths(&sf.obs.stdout, &paths);
        if let Some(v) = compare("C17.delivery", &format!("one file delivered as {plan:?} vs stdin"), &sf, &d0, true) {
            return Some(v);
        }
    }
    ctx.stats.nontrivial = different >= 2;
    None
}

/// replay form of a single failing stdin delivery
fn check_delivery_one(case: &Case, ctx: &mut Ctx) -> Option<Violation> {
    let input = case.stream();
    let d0 = ctx.exec(ref_spec(case, &input));
    if matches!(d0.outcome, Outcome::Panic(..) | Outcome::Clap(_)) {
        ctx.stats.invalid = true;
        ctx.jawk_panic = None;
        return None;
    }
    let r = ctx.exec(case_spec(case, &input));
    ctx.stats.nontrivial = true;
    compare(
        "C17.delivery",
        &format!("stdin delivery {:?}", case.delivery),
        &r,
        &d0,
        true,
    )
}

fn cuts_valid_for_concat(case: &Case) -> bool {
    case.pieces.iter().all(|p| match p.cut {
        None => true,
        Some(c) => match p.kind {
            Kind::Gap => true,
            Kind::Rec | Kind::Garbage => c == 0 || c >= p.bytes.0.len(),
            Kind::Raw => false,
        },
    })
}

fn check_files_concat(case: &Case, ctx: &mut Ctx) -> Option<Violation> {
    // with --on-error=stdout the diagnostics (file-relative positions) are part of stdout
    if !cuts_valid_for_concat(case) || uses_context(case) || policy_of(&case.opts) == Policy::Stdout {
        ctx.stats.invalid = true;
        return None;
    }
    let input = case.stream();
    let d0 = ctx.exec(ref_spec(case, &input));
    if matches!(d0.outcome, Outcome::Panic(..) | Outcome::Clap(_)) {
        ctx.stats.invalid = true;
        ctx.jawk_panic = None;
        return None;
    }
    let files = split_files(case);
    let fr = run_on_files(case, &files, ctx);
    ctx.stats.probe_n("files in partition", files.len() as u64);
    if files.len() > 1 {
        ctx.stats.nontrivial = true;
        if files.iter().any(Vec::is_empty) {
            ctx.stats.probe("empty file in partition");
        }
    }
    // diagnostics carry file-relative positions, so only their count is compared
    if let Some(v) = compare(
        "C17.files-concat",
        &format!("{} files cut at gaps vs the same bytes on stdin", files.len()),
        &fr.out,
        &d0,
        false,
    ) {
        return Some(v);
    }
    // arguments are read in the order given, whatever their names sort like and whether
    // they are files or directories: the first file under a name that sorts last, the second
    // as the only entry of a directory whose name sorts first
    if files.len() >= 2 {
        if let Some(base) = ctx.fresh_dir() {
            let mut paths: Vec<String> = Vec::new();
            let mut args: Vec<String> = Vec::new();
            for (i, _) in files.iter().enumerate() {
                if i == 1 {
                    let d = format!("{base}/a-dir");
                    let _ = std::fs::create_dir_all(&d);
                    if (case.stream().len() + files.len()) % 2 == 0 {
                        // ... and that file sits in a sub-directory that is a symbolic link
                        let t = format!("{base}/t-real");
                        let _ = std::fs::create_dir_all(&t);
                        let _ = std::os::unix::fs::symlink(&t, format!("{d}/link"));
                        paths.push(format!("{d}/link/only.json"));
                        ctx.stats.probe("a file behind a symbolic link to a directory");
                    } else {
                        paths.push(format!("{d}/only.json"));
                    }
                    args.push(d);
                } else {
                    let p = format!("{base}/z{}-part.json", 9 - i.min(9));
                    paths.push(p.clone());
                    args.push(p);
                }
            }
            if case.stream().len() % 3 != 1 {
                // an empty directory among the arguments (first, in between or last) and an
                // empty sub-directory next to the file inside the directory argument: nothing
                // to read there, and nothing that ends the reading either
                let e = format!("{base}/m-empty");
                let _ = std::fs::create_dir_all(&e);
                args.insert(case.stream().len() % (args.len() + 1), e);
                let _ = std::fs::create_dir_all(format!("{base}/a-dir/0-empty"));
                let _ = std::fs::create_dir_all(format!("{base}/a-dir/zz-empty"));
                ctx.stats.probe("empty directories among the arguments and inside a directory argument");
            }
            let mut spec = sim_files_spec(case, &paths, &files, &[]);
            let keep = spec.argv.len() - paths.len();
            spec.argv.truncate(keep);
            spec.argv.extend(args);
            let sf = ctx.exec(spec);
            let _ = std::fs::remove_dir_all(&base);
            ctx.stats.probe("file arguments with unsorted names and a directory among them");
            if let Some(v) = compare(
                "C17.files-concat",
                &format!("{} arguments (names not in sorted order, the second one a directory holding one file) vs the same bytes on stdin", files.len()),
                &sf,
                &d0,
                false,
            ) {
                return Some(v);
            }
        }
    }
    // a file named twice is read twice: f1 .. fn f1 must equal the stream followed by f1 again
    if !files.is_empty() && !files[0].is_empty() && matches!(files[0].last(), Some(b' ' | b'\n' | b'\t' | b'\r')) && matches!(input.last(), Some(b' ' | b'\n' | b'\t' | b'\r') | None) {
        let mut twice = input.clone();
        twice.extend_from_slice(&files[0]);
        let d2 = ctx.exec(ref_spec(case, &twice));
        if d2.outcome.is_ok() && d0.outcome.is_ok() {
            let paths = ctx.fresh_paths(files.len());
            let mut spec = sim_files_spec(case, &paths, &files, &[]);
            spec.argv.push(paths[0].clone());
            let sf = ctx.exec(spec);
            ctx.stats.probe("a file argument named twice");
            if let Some(v) = compare(
                "C17.files-concat",
                &format!("{} files and the first of them named again at the end vs the same bytes on stdin", files.len()),
                &sf,
                &d2,
                false,
            ) {
                return Some(v);
            }
        }
    }
    // the same partition behind the opener seam, every file in seeded chunks with EINTR
    {
        let mut rng = Rng::new(crate::rng::mix(&[input.len() as u64, files.len() as u64, 17]));
        let plans: Vec<FilePlan> = files.iter().map(|f| gen_file_plan(&mut rng, f.len())).collect();
        let paths = ctx.fresh_paths(files.len());
        let sf = ctx.exec(sim_files_spec(case, &paths, &files, &plans));
        if sf.obs.short_reads + sf.obs.intr_reads > 0 {
            ctx.stats.probe("file partition delivered in chunks / with EINTR");
        }
        if let Some(v) = compare(
            "C17.files-concat",
            &format!("{} files cut at gaps, delivered in chunks, vs the same bytes on stdin", files.len()),
            &sf,
            &d0,
            false,
        ) {
            return Some(v);
        }
    }
    let lines = |b: &[u8]| b.iter().filter(|x| **x == b'\n').count();
    if fr.out.outcome.is_ok() && lines(&fr.out.obs.stderr) != lines(&d0.obs.stderr) {
        return viol(
            "C17.files-concat",
            format!(
                "number of diagnostics differs between {} files and stdin: {} vs {}",
                files.len(),
                lines(&fr.out.obs.stderr),
                lines(&d0.obs.stderr)
            ),
        );
    }
    None
}

fn check_files_separate(case: &Case, ctx: &mut Ctx) -> Option<Violation> {
    let class = classify(&case.opts);
    let pol = policy_of(&case.opts);
    if class != Class::Stateless || uses_context(case) || !matches!(pol, Policy::Ignore | Policy::Stderr) {
        ctx.stats.invalid = true;
        return None;
    }
    let files = split_files(case);
    let header = ctx.exec(ref_spec(case, b""));
    if !header.outcome.is_ok() {
        ctx.stats.invalid = true;
        ctx.jawk_panic = None;
        return None;
    }
    let h = header.obs.stdout.clone();
    let mut expect = h.clone();
    for f in &files {
        let solo = ctx.exec(ref_spec(case, f));
        if !solo.outcome.is_ok() {
            ctx.stats.invalid = true;
            ctx.jawk_panic = None;
            return None;
        }
        if !solo.obs.stdout.starts_with(&h) {
            return viol(
                "C17.files-separate",
                format!("solo run of a file does not start with the header {}", show(&h)),
            );
        }
        expect.extend_from_slice(&solo.obs.stdout[h.len()..]);
    }
    let fr = run_on_files(case, &files, ctx);
    if case.pieces.iter().any(|p| {
        p.kind == Kind::Rec && p.cut.map_or(false, |c| c > 0 && c < p.bytes.0.len())
    }) {
        ctx.stats.probe("file boundary inside a value");
        ctx.stats.nontrivial = true;
    }
    if !fr.out.outcome.is_ok() {
        return viol(
            "C17.files-separate",
            format!("run on {} files failed: {}", files.len(), fr.out.outcome.describe()),
        );
    }
    if fr.out.obs.stdout != expect {
        return viol(
            "C17.files-separate",
            format!(
                "stdout of {} files is not header + sum of the per-file runs (a value spans two files, or state leaks across files); differs at byte {}: {} vs {}",
                files.len(),
                common_prefix(&fr.out.obs.stdout, &expect),
                show(&fr.out.obs.stdout),
                show(&expect)
            ),
        );
    }
    None
}

fn line_starts(b: &[u8]) -> Vec<usize> {
    let mut v = vec![0];
    for (i, x) in b.iter().enumerate() {
        if *x == b'\n' {
            v.push(i + 1);
        }
    }
    v
}

fn off(ls: &[usize], line: u64, col: u64) -> Option<usize> {
    if line == 0 || col == 0 {
        return None;
    }
    ls.get(line as usize - 1).map(|s| s + col as usize - 1)
}

struct Known {
    file: usize,
    start: usize,
    end: usize,
    scalar: bool,
    /// a garbage region or a skipped scalar lies between the previous processed value and this one
    gap_before_dirty: bool,
}

fn check_context(case: &Case, ctx: &mut Ctx) -> Option<Violation> {
    // only the seven selectors + optional only-objects + policy are understood here
    let only_obj = has_opt(&case.opts, "--only-objects-and-arrays");
    for o in &case.opts {
        let ok = (o[0] == "--select"
            && o.len() == 2
            && CONTEXT_SELECTS
                .iter()
                .any(|(s, n)| CONTEXT_WRAPPERS.iter().any(|w| o[1] == format!("{}={n}", w.replace("{}", s)))))
            || o[0] == "--only-objects-and-arrays"
            || (o[0] == "--set" && o.len() == 2)
            || o[0].starts_with("--skip=")
            || o[0].starts_with("--on-error=");
        if !ok {
            ctx.stats.invalid = true;
            return None;
        }
    }
    if case.pieces.iter().any(|p| p.kind == Kind::Raw) {
        ctx.stats.invalid = true;
        return None;
    }
    let have = |n: &str| case.opts.iter().any(|o| o.len() == 2 && o[1].ends_with(&format!("={n}")));
    let use_files = case.param("files") == 1;
    let files: Vec<Vec<u8>> = if use_files {
        if !cuts_valid_for_concat(case) {
            ctx.stats.invalid = true;
            return None;
        }
        split_files(case)
    } else {
        vec![case.stream()]
    };
    // what the harness knows: record spans per file
    let cuts = if use_files { case.cuts() } else { vec![] };
    let file_of = |o: usize| cuts.iter().filter(|c| **c <= o).count();
    let file_base = |f: usize| if f == 0 { 0 } else { cuts[f - 1] };
    let mut known: Vec<Known> = Vec::new();
    let mut dirty = false;
    let mut last_file = 0;
    for (p, (s, e)) in case.pieces.iter().zip(case.spans()) {
        let f = file_of(s);
        if f != last_file {
            dirty = false;
            last_file = f;
        }
        match p.kind {
            Kind::Rec => {
                if p.bytes.0.is_empty() {
                    continue;
                }
                let scalar = !matches!(p.bytes.0[0], b'{' | b'[');
                if only_obj && scalar {
                    dirty = true;
                    continue;
                }
                known.push(Known {
                    file: f,
                    start: s - file_base(f),
                    end: e - file_base(f),
                    scalar,
                    gap_before_dirty: dirty,
                });
                dirty = false;
            }
            Kind::Garbage => dirty = true,
            _ => {}
        }
    }
    let skip_k: usize = case
        .opts
        .iter()
        .find_map(|o| o[0].strip_prefix("--skip=").and_then(|v| v.parse().ok()))
        .unwrap_or(0);
    let as_dir = use_files && case.param("as_dir") == 1 && skip_k == 0;
    let (out, paths) = if as_dir {
        let Some(dir) = ctx.fresh_dir() else {
            ctx.harness_error = Some("cannot create a directory".into());
            return None;
        };
        let mut paths: Vec<String> = (0..files.len()).map(|i| format!("{dir}/part{i}.json")).collect();
        let target = format!("{dir}-t");
        if files.len() >= 2 && case.stream().len() % 2 == 0 {
            // the last file sits in a sub-directory that is a symbolic link to a directory
            // somewhere else
            let _ = std::fs::create_dir_all(&target);
            let _ = std::os::unix::fs::symlink(&target, format!("{dir}/sub"));
            let last = paths.len() - 1;
            paths[last] = format!("{dir}/sub/part{last}.json");
            ctx.stats.probe("a file behind a symbolic link to a directory");
        }
        let mut rng = Rng::new(crate::rng::mix(&[files.len() as u64, case.stream().len() as u64, 29]));
        let plans: Vec<FilePlan> = files.iter().map(|f| gen_file_plan(&mut rng, f.len())).collect();
        ctx.stats.probe("context rows from a directory argument");
        let mut spec = sim_dir_spec(case, &dir, &paths, &files, &plans);
        if case.stream().len() % 3 != 0 {
            // the order of the listing is the simulator's (hook H3) in two scenarios out of
            // three, the file system's in the third; the oracle reads it off the rows
            let mut entries: Vec<String> = paths.iter().filter(|p| !p.starts_with(&format!("{dir}/sub/"))).cloned().collect();
            if entries.len() < paths.len() {
                entries.push(format!("{dir}/sub"));
            }
            rng.shuffle(&mut entries);
            spec.dirs = vec![DirSrc {
                path: dir.clone(),
                entries,
                open_fails: None,
                entry_fault: None,
            }];
            ctx.stats.probe("directory listed in an order decided by the simulator");
        }
        let out = ctx.exec(spec);
        let _ = std::fs::remove_dir_all(&dir);
        let _ = std::fs::remove_dir_all(&target);
        (out, paths)
    } else if use_files && case.param("simfiles") == 1 {
        let mut rng = Rng::new(crate::rng::mix(&[files.len() as u64, case.stream().len() as u64, 23]));
        let plans: Vec<FilePlan> = files.iter().map(|f| gen_file_plan(&mut rng, f.len())).collect();
        let paths = ctx.fresh_paths(files.len());
        ctx.stats.probe("context rows from chunked file arguments");
        (ctx.exec(sim_files_spec(case, &paths, &files, &plans)), paths)
    } else if use_files {
        let fr = run_on_files(case, &files, ctx);
        (fr.out, fr.paths)
    } else {
        let input = case.stream();
        (ctx.exec(case_spec(case, &input)), vec![])
    };
    if let Outcome::Abort(w) = &out.outcome {
        return viol("C17.context", format!("run aborted by the simulator: {w}"));
    }
    if !out.outcome.is_ok() {
        if matches!(out.outcome, Outcome::Panic(..)) {
            return None; // reported by the generic panic rule
        }
        return viol("C17.context", format!("run failed: {}", out.outcome.describe()));
    }
    let text = String::from_utf8_lossy(&out.obs.stdout).to_string();
    let rows: Vec<&str> = text.split('\n').filter(|l| !l.is_empty()).collect();
    let rawlf = case.pieces.iter().any(|p| p.kind == Kind::Rec && p.tag == "rawlf");
    if rawlf {
        ctx.stats.probe("raw line feed inside a string");
    }
    let glued = rawlf || case.pieces.iter().any(|p| p.kind == Kind::Garbage && p.tag == "glued");
    if glued && !rawlf {
        ctx.stats.probe("junk glued to the following value");
    }
    if rows.len() != known.len() && glued {
        // how a reader resynchronises inside a token that starts with junk is not fixed by
        // the property; positions are judged only when every generated value was processed
        ctx.stats.invalid = true;
        ctx.stats.probe("skipped: glued junk changed which values are processed");
        return None;
    }
    if as_dir {
        // the listing order is read off the rows: every file's rows must be contiguous
        let mut order: Vec<usize> = Vec::new();
        for row in &rows {
            let name = serde_json::from_str::<serde_json::Value>(row)
                .ok()
                .and_then(|v| v.get("fn").and_then(serde_json::Value::as_str).map(str::to_string));
            let Some(fi) = name.as_ref().and_then(|n| paths.iter().position(|p| p == n)) else {
                return viol("C17.file-name", format!("a row of a directory run names no file of that directory: {row}"));
            };
            if order.last() != Some(&fi) {
                if order.contains(&fi) {
                    return viol("C17.file-name", format!("rows of file {fi} of the directory are not contiguous: {row}"));
                }
                order.push(fi);
            }
        }
        let mut re: Vec<Known> = Vec::new();
        for fi in &order {
            let mut i = 0;
            while i < known.len() {
                if known[i].file == *fi {
                    re.push(known.remove(i));
                } else {
                    i += 1;
                }
            }
        }
        // values of files that never showed up stay behind and fail the count below
        re.append(&mut known);
        known = re;
    }
    if rows.len() != known.len().saturating_sub(skip_k) {
        return viol(
            "C17.context",
            format!(
                "{} rows for {} processed values ({} files, only-objects={only_obj}, --skip={skip_k})",
                rows.len(),
                known.len(),
                files.len()
            ),
        );
    }
    // ordinal of every processed value within its file
    let mut ord_in_file: Vec<u64> = Vec::with_capacity(known.len());
    for (i, k) in known.iter().enumerate() {
        ord_in_file.push(if i > 0 && known[i - 1].file == k.file { ord_in_file[i - 1] + 1 } else { 0 });
    }
    if skip_k > 0 {
        ctx.stats.probe("context rows behind --skip");
    }
    let lss: Vec<Vec<usize>> = files.iter().map(|f| line_starts(f)).collect();
    let mut in_file = 0u64;
    let mut prev: Option<(usize, usize)> = None; // (file, end offset)
    let mut contains_violation: Option<Violation> = None;
    for (j0, (row, k)) in rows.iter().zip(known.iter().skip(skip_k)).enumerate() {
        let j = j0 + skip_k;
        let v: serde_json::Value = match serde_json::from_str(row) {
            Ok(v) => v,
            Err(e) => {
                return viol("C17.context", format!("row {j} is not JSON ({e}): {row}"));
            }
        };
        let num = |n: &str| v.get(n).and_then(serde_json::Value::as_u64);
        if prev.map_or(true, |p| p.0 != k.file) {
            prev = None;
        }
        in_file = ord_in_file[j];
        // (the first row printed may not be the first value of its file)
        let mid_file_start = prev.is_none() && in_file > 0;
        ctx.stats.probe("context rows checked");
        ctx.stats.nontrivial = true;
        if have("i") && num("i") != Some(j as u64) {
            return viol("C17.index", format!("row {j}: &index is {:?}, expected {j}; row: {row}", v.get("i")));
        }
        if have("f") && num("f") != Some(in_file) {
            return viol(
                "C17.index-in-file",
                format!("row {j} (file {}): &index-in-file is {:?}, expected {in_file}; row: {row}", k.file, v.get("f")),
            );
        }
        if have("fn") {
            let got = v.get("fn").and_then(serde_json::Value::as_str);
            let want = if use_files { Some(paths[k.file].as_str()) } else { None };
            if got != want {
                return viol("C17.file-name", format!("row {j}: &file-name is {got:?}, expected {want:?}"));
            }
        }
        if have("sl") && have("sc") && have("el") && have("ec") {
            let ls = &lss[k.file];
            let flen = files[k.file].len();
            let (Some(sl), Some(sc), Some(el), Some(ec)) = (num("sl"), num("sc"), num("el"), num("ec")) else {
                return viol("C17.context", format!("row {j}: position selectors missing: {row}"));
            };
            let (Some(s), Some(e)) = (off(ls, sl, sc), off(ls, el, ec)) else {
                return viol(
                    "C17.pos-lines",
                    format!("row {j}: line numbers {sl}/{el} do not exist in a file of {} lines (lines are counted by LF); row: {row}", ls.len()),
                );
            };
            // a reported line must really be the line of that offset
            if s > flen || e > flen {
                return viol(
                    "C17.pos-range",
                    format!("row {j}: range {s}..{e} exceeds the file length {flen}; row: {row}"),
                );
            }
            let line_of = |o: usize| ls.iter().filter(|x| **x <= o).count() as u64;
            if (s < flen && line_of(s) != sl) || (e < flen && line_of(e) != el) {
                return viol(
                    "C17.pos-lines",
                    format!("row {j}: column runs past the end of the reported line (lines must be counted by newlines): start {sl}:{sc} end {el}:{ec}"),
                );
            }
            if let Some((_, pe)) = prev {
                if s < pe {
                    return viol(
                        "C17.pos-contiguous",
                        format!("row {j}: range starts at {s}, before the previous range ended at {pe}"),
                    );
                }
                if !k.gap_before_dirty && s != pe {
                    return viol(
                        "C17.pos-contiguous",
                        format!("row {j}: range starts at {s} but the previous range ended at {pe} and nothing was skipped in between"),
                    );
                }
            } else if !k.gap_before_dirty && s != 0 && !mid_file_start {
                return viol(
                    "C17.pos-contiguous",
                    format!("row {j}: first value of file {} has start {s}, expected 0 (only whitespace precedes it)", k.file),
                );
            }
            if e < k.end {
                return viol(
                    "C17.pos-contains",
                    format!("row {j}: range {s}..{e} ends before the value's text {}..{} does", k.start, k.end),
                );
            }
            if s > k.start && contains_violation.is_none() {
                let touching = k.start > 0 && !matches!(files[k.file][k.start - 1], b' ' | b'\t' | b'\n' | b'\r');
                contains_violation = viol(
                    "C17.pos-contains",
                    format!(
                        "row {j}: range {s}..{e} starts after the value's text {}..{} does{}",
                        k.start,
                        k.end,
                        if touching && s == k.start + 1 {
                            " [value text directly follows the previous token without whitespace; start is one byte late]"
                        } else {
                            ""
                        }
                    ),
                );
            }
            prev = Some((k.file, e));
        } else {
            prev = Some((k.file, 0));
        }
        let _ = k.scalar;
    }
    if contains_violation.is_none() && !as_dir && skip_k == 0 && !rows.is_empty() {
        // an & selector inside --group-by: every value is its own group, named by its ordinal
        let mut g = case.clone();
        g.opts.retain(|o| o[0] != "--select");
        g.opts.push(vec!["--group-by=(stringify &index)".into()]);
        g.opts.push(vec!["--style=consise".into()]);
        let b = if use_files {
            let p2 = ctx.fresh_paths(files.len());
            ctx.exec(sim_files_spec(&g, &p2, &files, &[]))
        } else {
            let input = case.stream();
            ctx.exec(case_spec(&g, &input))
        };
        if b.outcome.is_ok() {
            let keys: Vec<String> = serde_json::from_slice::<serde_json::Value>(b.obs.stdout.split(|c| *c == b'\n').next().unwrap_or(b""))
                .ok()
                .and_then(|v| v.as_object().map(|o| o.keys().cloned().collect()))
                .unwrap_or_default();
            let mut keys = keys;
            let mut want: Vec<String> = (0..known.len()).map(|i| i.to_string()).collect();
            keys.sort();
            want.sort();
            ctx.stats.probe("&index inside --group-by checked");
            if keys != want {
                return viol(
                    "C17.index",
                    format!("grouped by (stringify &index), the groups are {keys:?} instead of one per processed value {want:?}"),
                );
            }
        }
    }
    if contains_violation.is_none() && !as_dir && skip_k == 0 && rows.len() >= 3 && rows.len() <= 400 {
        // a filter in front of the selections lets only some values through: the survivors
        // keep their context, whatever was dropped between them (ordinals chosen here, the
        // filter spelled with &index, the expected rows taken from the rows just verified)
        let mut rng = Rng::new(crate::rng::mix(&[case.stream().len() as u64, rows.len() as u64, 31]));
        let mut keep: Vec<usize> = (0..rows.len()).filter(|_| rng.chance(1, 3)).collect();
        if keep.is_empty() {
            keep.push(rng.below(rows.len()));
        }
        while keep.len() > 12 {
            let i = rng.below(keep.len());
            keep.remove(i);
        }
        let expr = if keep.len() == 1 {
            format!("(= &index {})", keep[0])
        } else {
            format!("(or {})", keep.iter().map(|k| format!("(= &index {k})")).collect::<Vec<_>>().join(" "))
        };
        let mut f = case.clone();
        f.opts.push(vec![format!("--filter={expr}")]);
        let b = if use_files {
            ctx.exec(sim_files_spec(&f, &paths, &files, &[]))
        } else {
            let input = case.stream();
            ctx.exec(case_spec(&f, &input))
        };
        if b.outcome.is_ok() {
            let tb = String::from_utf8_lossy(&b.obs.stdout).to_string();
            let rb: Vec<&str> = tb.split('\n').filter(|l| !l.is_empty()).collect();
            let want: Vec<&str> = keep.iter().map(|k| rows[*k]).collect();
            ctx.stats.probe("context rows re-checked behind a filter on &index");
            if rb != want {
                let at = rb.iter().zip(want.iter()).position(|(x, y)| x != y).unwrap_or(rb.len().min(want.len()));
                return viol(
                    "C17.context",
                    format!(
                        "behind --filter={expr} the rows are not the unfiltered rows of those values (first difference at kept row {at}): {:?} vs {:?}",
                        rb.get(at),
                        want.get(at)
                    ),
                );
            }
        }
    }
    if contains_violation.is_none() && !as_dir && skip_k == 0 && rows.len() >= 2 {
        // the selectors belong to their value even when a stage holds the value back: two
        // sort keys, a constant and &index descending, must give exactly the rows in reverse
        let mut sorted = case.clone();
        // (the first key given is the most significant one, and it is the one a chain of
        // sorters evaluates last: when the outer sorter hands its rows over at end of input)
        sorted.opts.push(vec!["--sort-by=&index=DESC".into()]);
        sorted.opts.push(vec!["--sort-by=\"k\"".into()]);
        let b = if use_files {
            // (the same names again: the rows carry them)
            ctx.exec(sim_files_spec(&sorted, &paths, &files, &[]))
        } else {
            let input = case.stream();
            ctx.exec(case_spec(&sorted, &input))
        };
        if b.outcome.is_ok() {
            let tb = String::from_utf8_lossy(&b.obs.stdout).to_string();
            let mut rb: Vec<&str> = tb.split('\n').filter(|l| !l.is_empty()).collect();
            rb.reverse();
            ctx.stats.probe("context rows re-checked behind two sorters");
            if rb != rows {
                let at = rb.iter().zip(rows.iter()).position(|(x, y)| x != y).unwrap_or(rb.len().min(rows.len()));
                return viol(
                    "C17.context",
                    format!(
                        "sorted by a constant and by &index descending, the rows are not the unsorted rows in reverse (first difference at row {at}): {:?} vs {:?}",
                        rb.get(at),
                        rows.get(at)
                    ),
                );
            }
        }
    }
    contains_violation
}


/// Replace the escape `\n` inside JSON strings by a raw line feed. Returns the new text
/// and the number of replacements.
fn raw_line_feeds(text: &[u8]) -> (Vec<u8>, usize) {
    let mut out = Vec::with_capacity(text.len());
    let mut n = 0;
    let mut in_string = false;
    let mut i = 0;
    while i < text.len() {
        let c = text[i];
        if in_string {
            if c == b'\\' && i + 1 < text.len() {
                if text[i + 1] == b'n' {
                    out.push(b'\n');
                    n += 1;
                } else {
                    out.push(c);
                    out.push(text[i + 1]);
                }
                i += 2;
                continue;
            }
            if c == b'"' {
                in_string = false;
            }
        } else if c == b'"' {
            in_string = true;
        }
        out.push(c);
        i += 1;
    }
    (out, n)
}
