//! C06 — noise between values never changes them; `--on-error` policies do what they say.

use super::{Budget, Property, ShrinkCaps};
use crate::case::*;
use crate::common::*;
use crate::gen::*;
use crate::rng::Rng;
use crate::run::*;

pub struct C06;

const READ_AHEAD: usize = 128 * 1024;

/// the stream with every garbage region replaced by one newline
fn clean_of(pieces: &[Piece]) -> Vec<u8> {
    let mut v = Vec::new();
    for p in pieces {
        if p.kind == Kind::Garbage {
            v.push(b'\n');
        } else {
            v.extend_from_slice(&p.bytes.0);
        }
    }
    v
}

/// (offset of the first non-whitespace byte of each garbage region in the noisy stream,
///  clean stream cut just before that region)
fn regions(pieces: &[Piece]) -> Vec<(usize, Vec<u8>)> {
    let mut out = Vec::new();
    let mut noisy_off = 0;
    let mut clean: Vec<u8> = Vec::new();
    for p in pieces {
        if p.kind == Kind::Garbage {
            let lead = p
                .bytes
                .0
                .iter()
                .position(|b| !matches!(b, b' ' | b'\t' | b'\n' | b'\r'))
                .unwrap_or(0);
            out.push((noisy_off + lead, clean.clone()));
            clean.push(b'\n');
        } else {
            clean.extend_from_slice(&p.bytes.0);
        }
        noisy_off += p.bytes.0.len();
    }
    out
}

fn with_policy(case: &Case, p: Policy) -> Case {
    let mut c = case.clone();
    c.opts.retain(|o| !o[0].starts_with("--on-error"));
    c.opts.push(policy_opt(p));
    c
}

/// split into (bytes without `error:` lines, for every error line the offset it has in the
/// error-free text)
fn strip_error_lines(b: &[u8]) -> (Vec<u8>, Vec<usize>, bool) {
    let mut rest = Vec::new();
    let mut at = Vec::new();
    let mut unterminated = false;
    let mut i = 0;
    while i < b.len() {
        let e = b[i..].iter().position(|x| *x == b'\n').map_or(b.len(), |p| i + p + 1);
        let line = &b[i..e];
        if line.starts_with(b"error:") {
            at.push(rest.len());
            if !line.ends_with(b"\n") {
                unterminated = true;
            }
        } else {
            rest.extend_from_slice(line);
        }
        i = e;
    }
    (rest, at, unterminated)
}

fn only_error_lines(b: &[u8]) -> Result<usize, String> {
    let mut n = 0;
    let mut i = 0;
    while i < b.len() {
        let e = b[i..].iter().position(|x| *x == b'\n').map_or(b.len(), |p| i + p + 1);
        let line = &b[i..e];
        if !line.starts_with(b"error:") {
            return Err(format!("a line that is not a diagnostic: {}", show(line)));
        }
        if !line.ends_with(b"\n") {
            return Err(format!("an unterminated diagnostic line: {}", show(line)));
        }
        n += 1;
        i = e;
    }
    Ok(n)
}

impl Property for C06 {
    fn id(&self) -> &'static str {
        "C06"
    }
    fn level(&self) -> &'static str {
        "exploration"
    }
    fn rule(&self) -> &'static str {
        "A scenario = clean generated stream with whitespace-delimited garbage regions (1..3 tokens of bytes that cannot start a JSON value, incl. } ] , : . e E + and non-UTF-8 bytes) dropped into its gaps (also before the first and after the last value; in some scenarios the last token ends exactly at end of input, or the stream ends inside a truncated string/array/object; special tokens: byte-order marks, VT, FF, NEL, NBSP), arriving on stdin, as a file argument or as the only file of a directory argument (hook H2), with seeded short writes and EINTR on both sinks, x one of the four --on-error policies x a pipeline of any class (JSON rows with the default separator under the stdout policy) x a seeded delivery plan. Compared with executions of the same build on the garbage-free stream (same policy and under `ignore`) and, for `panic` and for the placement of diagnostics under `stdout`, on the clean prefix cut before each region. Which regions a run got to: all of them without --take (the first under panic); with --take only those whose first byte was delivered and after which a row of a later value came out (how far jawk read ahead does not settle it). evaluations = jawk executions; non-trivial = at least one garbage region was reached; distinct = distinct abstract traces. Round 7: a garbage region at offset 0 of an input is, half of the time, header junk (byte-order marks whole or cut, #!, form feed, NUL), also at the start of a later file; spelling level 2 writes the last member of an object twice (same name, same value); one garnished scenario in four has a row sink whose flush fails while writes succeed - judged only if the garbage-free run on the same sinks succeeds, and then the noisy run must succeed too."
    }
    fn assumptions(&self) -> Vec<String> {
        vec![
            "garbage is confined to gaps between top-level values (noise inside a value is C05's domain)".into(),
            "rows are recognised as 'not starting with error:' - guaranteed by JSON output with the default row separator, which is what the stdout policy is combined with".into(),
            "reference runs are executions of the same jawk build".into(),
        ]
    }
    fn shrink_caps(&self) -> ShrinkCaps {
        ShrinkCaps {
            drop_pieces: true,
            simplify_records: true,
            shrink_raw: false,
            drop_opts: true,
        }
    }
    fn budget(&self, tier: Tier) -> Budget {
        match tier {
            Tier::Quick => Budget {
                seconds: 60,
                max_cases: 60_000,
            },
            Tier::Thorough => Budget {
                seconds: 600,
                max_cases: 4_000_000,
            },
        }
    }

    fn generate(&self, rng: &mut Rng, tier: Tier) -> Case {
        let mut case = Case::new("C06", "noise");
        let pol = *rng.pick(&[Policy::Ignore, Policy::Panic, Policy::Stderr, Policy::Stdout]);
        // one scenario in twelve is a long, very noisy history in one input
        let long = rng.chance(1, 12);
        let w = StreamWish {
            min_records: if long { 150 } else { 0 },
            max_records: if long {
                400
            } else if tier == Tier::Thorough {
                30
            } else {
                10
            },
            noise_eighths: if long { 8 } else { *rng.pick(&[0usize, 1, 2, 4, 8]) },
            allow_touch: true,
            spell_level: 1,
            allow_big: true,
            schema_only: false,
        };
        case.pieces = gen_stream(rng, &w);
        if long {
            // hundreds of diagnostics, each naming the input, through a sink that may take
            // one byte at a time: the default event budget is for ordinary scenarios
            case.set("max_events", 6_000_000);
        }
        if long && rng.chance(1, 2) {
            // a long history in which every piece of noise starts a container or a word
            for p in case.pieces.iter_mut() {
                if p.kind == Kind::Garbage {
                    let word = rng.chance(1, 2);
                    let t: &[u8] = if word { *rng.pick(BROKEN_WORDS) } else { *rng.pick(BROKEN_STARTS) };
                    // (the pinned tree's diagnostic for a broken word quotes the byte that
                    // follows it: where diagnostics are printed that byte is a blank)
                    let d = if word && matches!(pol, Policy::Stderr | Policy::Stdout) { b' ' } else { b'\n' };
                    let mut g = vec![d];
                    g.extend_from_slice(t);
                    g.push(d);
                    p.bytes.0 = g;
                }
            }
        }
        if rng.chance(1, 4) {
            // one piece of noise is a word or a number that stops before it is complete
            let garbage: Vec<usize> = (0..case.pieces.len()).filter(|i| case.pieces[*i].kind == Kind::Garbage).collect();
            if !garbage.is_empty() {
                let i = if pol == Policy::Panic { garbage[0] } else { *rng.pick(&garbage) };
                let t: &[u8] = *rng.pick(BROKEN_WORDS);
                let d = if matches!(pol, Policy::Stderr | Policy::Stdout) { b' ' } else { b'\n' };
                let mut g = vec![d];
                g.extend_from_slice(t);
                g.push(d);
                case.pieces[i].bytes.0 = g;
            }
        }
        if rng.chance(1, 4) {
            // noise glued to the end of the value in front of it (`"a"x`, `[1]}`, `true?`): the
            // value is complete where its grammar ends. Only where that end is beyond doubt:
            // behind a closing quote or bracket anything may follow, behind a word anything
            // but a letter, a digit or an underscore; behind a number nothing is glued (the
            // next byte could belong to it).
            for i in 1..case.pieces.len() {
                if case.pieces[i].kind != Kind::Garbage || case.pieces[i - 1].kind != Kind::Rec || !rng.chance(1, 2) {
                    continue;
                }
                let Some(&last) = case.pieces[i - 1].bytes.0.last() else { continue };
                let g = &case.pieces[i].bytes.0;
                let Some(first) = g.iter().copied().find(|b| !matches!(b, b' ' | b'\t' | b'\n' | b'\r')) else { continue };
                let ok = match last {
                    b'"' | b']' | b'}' => true,
                    b'e' | b'l' => !(first.is_ascii_alphanumeric() || first == b'_'),
                    _ => false,
                };
                if ok {
                    let skip = g.iter().take_while(|b| matches!(b, b' ' | b'\t' | b'\n' | b'\r')).count();
                    case.pieces[i].bytes.0.drain(..skip);
                    case.pieces[i].tag = "glued-after".into();
                }
            }
        }
        if count_kind(&case.pieces, Kind::Garbage) == 0 && rng.chance(3, 4) {
            // make sure most scenarios have noise somewhere
            let at = rng.below(case.pieces.len() + 1);
            let at = fix_insert_point(&case.pieces, at);
            case.pieces.insert(at, Piece::garbage(gen_garbage_region(rng)));
        }
        if rng.chance(1, 4) {
            // the producer died right after writing junk: the stream ends with a garbage
            // token that is delimited by whitespace on the left and by end of input on the right
            while case.pieces.last().map_or(false, |p| p.kind == Kind::Gap) {
                case.pieces.pop();
            }
            if case.pieces.last().map_or(true, |p| p.kind != Kind::Garbage) {
                case.pieces.push(Piece::garbage(gen_garbage_region(rng)));
            }
            if let Some(p) = case.pieces.last_mut() {
                while p.bytes.0.last().map_or(false, |b| matches!(b, b' ' | b'\t' | b'\n' | b'\r')) {
                    p.bytes.0.pop();
                }
                p.tag = "at-eof".into();
            }
        } else if rng.chance(1, 5) {
            // the producer died inside a value: the stream ends with a truncated string,
            // array or object (bytes that are not part of any complete JSON value)
            while case.pieces.last().map_or(false, |p| p.kind == Kind::Gap) {
                case.pieces.pop();
            }
            let p = gen_truncated_tail(rng);
            case.pieces.push(p);
        }
        if rng.chance(1, 3) {
            case.out = gen_sink_garnish(rng, 200);
            case.err = gen_sink_garnish(rng, 200);
            if rng.chance(1, 4) {
                // a row sink that takes every write and fails every flush: whether jawk
                // flushes is its own business, but not something noise may decide
                case.out.flush_fails = true;
            }
        }
        // 0 = stdin, 1 = a file argument behind the opener seam, 2 = that file as the only
        // entry of a directory argument
        // 3 = several file arguments, the stream cut at gaps
        // 4 = the file named twice, 5 = the file named directly and reached again through
        // the directory that holds it
        case.set("via", *rng.pick(&[0i64, 0, 0, 0, 1, 1, 2, 2, 3, 3, 4, 5]));
        let mut wish = PipeWish::any();
        wish.allow_corpus = false;
        if pol == Policy::Stdout {
            // rows must be recognisable as "not a diagnostic": JSON rows, or csv rows (whose
            // strings are quoted), with the default row separator
            wish.style = Some(if rng.chance(1, 4) { Style::Csv } else { Style::Json });
            wish.default_rows = true;
        }
        case.opts = gen_pipe(rng, &wish).opts;
        if rng.chance(1, 6) && !has_opt(&case.opts, "--group-by") && !has_opt(&case.opts, "--merge") {
            // the ordinals of the values are part of the rows: noise must not shift them
            case.opts.push(vec!["--select".into(), format!("{}=ord", rng.pick(&["&index", "&index-in-file"]))]);
        }
        case.opts.push(policy_opt(pol));
        case.delivery = gen_delivery(rng, case.stream().len());
        if case.param("via") > 0 {
            if has_opt(&case.opts, "--take") {
                // jawk's own read-ahead on files hides how far it really got
                case.set("via", 0);
            } else if case.param("via") == 3 {
                let gaps: Vec<usize> = (0..case.pieces.len()).filter(|i| case.pieces[*i].kind == Kind::Gap).collect();
                let mut junk_after = Vec::new();
                for _ in 0..rng.range(1, 2) {
                    if !gaps.is_empty() {
                        let i = *rng.pick(&gaps);
                        let l = case.pieces[i].bytes.0.len();
                        let after_rec = i > 0 && case.pieces[i - 1].kind == Kind::Rec;
                        if after_rec && pol != Policy::Ignore && rng.chance(1, 3) && !junk_after.contains(&i) {
                            // the next file starts with what other tools put in front of a
                            // text file (a byte-order mark, say)
                            case.pieces[i].cut = Some(l);
                            junk_after.push(i);
                        } else if !junk_after.contains(&i) {
                            case.pieces[i].cut = Some(rng.below(l + 1));
                        }
                    }
                }
                junk_after.sort();
                for i in junk_after.into_iter().rev() {
                    case.pieces.insert(i + 1, Piece::garbage(gen_header_junk(rng)));
                }
                let datas = split_files(&case);
                case.files = datas.iter().map(|d| gen_file_plan(rng, d.len())).collect();
            } else {
                case.files = vec![gen_file_plan(rng, case.stream().len())];
            }
        }
        case
    }

    fn check(&self, case: &Case, ctx: &mut Ctx) -> Option<Violation> {
        if case.pieces.iter().any(|p| p.kind == Kind::Raw) {
            ctx.stats.invalid = true;
            return None;
        }
        let pol = policy_of(&case.opts);
        let class = classify(&case.opts);
        let noisy = case.stream();
        let clean = clean_of(&case.pieces);
        let regs = regions(&case.pieces);
        // the clean stream under `ignore` and under the policy
        let clean_ignore = ctx.exec(ref_spec(&with_policy(case, Policy::Ignore), &clean));
        if !clean_ignore.outcome.is_ok() {
            ctx.stats.invalid = true;
            ctx.jawk_panic = None;
            return None;
        }
        let clean_pol = ctx.exec(ref_spec(case, &clean));
        if !clean_pol.outcome.is_ok()
            || clean_pol.obs.stdout != clean_ignore.obs.stdout
            || !clean_pol.obs.stderr.is_empty()
            || !clean_ignore.obs.stderr.is_empty()
        {
            return viol(
                "C06.clean",
                format!(
                    "a clean stream behaves differently under {pol:?}: {} stdout {} stderr {} (ignore: stdout {})",
                    clean_pol.outcome.describe(),
                    show(&clean_pol.obs.stdout),
                    show(&clean_pol.obs.stderr),
                    show(&clean_ignore.obs.stdout)
                ),
            );
        }
        if case.out.flush_fails {
            // the same sinks on the garbage-free stream: if jawk flushes there too, the
            // failing flush ends that run as well and the scenario says nothing about noise
            let c = ctx.exec(case_spec(case, &clean));
            if !c.outcome.is_ok() {
                ctx.stats.invalid = true;
                ctx.stats.probe("skipped: the garbage-free run flushes the failing row sink too");
                ctx.jawk_panic = None;
                return None;
            }
            ctx.stats.fault("sink.flush-fails", 1);
        }
        let no_early_stop = !has_opt(&case.opts, "--take") && !case.opts.iter().flatten().any(|t| t.contains('&'));
        let via = match case.param("via") {
            v @ (1 | 2) if no_early_stop && case.files.len() == 1 => v,
            v @ (4 | 5) if no_early_stop && case.files.len() == 1 && pol != Policy::Panic => v,
            3 if no_early_stop && case.files.len() > 1 && case.files.len() == split_files(case).len() => 3,
            _ => 0,
        };
        let r = match via {
            1 => {
                let paths = ctx.fresh_paths(1);
                ctx.stats.probe("noisy stream delivered as a file argument");
                ctx.exec(sim_files_spec(case, &paths, &[noisy.clone()], &case.files))
            }
            2 => {
                let Some(dir) = ctx.fresh_dir() else {
                    ctx.harness_error = Some("cannot create a directory".into());
                    return None;
                };
                let paths = vec![format!("{dir}/only.json")];
                ctx.stats.probe("noisy stream delivered as the only file of a directory argument");
                let r = ctx.exec(sim_dir_spec(case, &dir, &paths, &[noisy.clone()], &case.files));
                let _ = std::fs::remove_dir_all(&dir);
                r
            }
            3 => {
                let datas = split_files(case);
                let paths = ctx.fresh_paths(datas.len());
                ctx.stats.probe("noisy stream delivered as several file arguments");
                ctx.exec(sim_files_spec(case, &paths, &datas, &case.files))
            }
            4 => {
                // the same noisy file named twice: read twice, reported twice
                let p = ctx.fresh_paths(1).remove(0);
                ctx.stats.probe("noisy file named twice on the command line");
                let plan = case.files[0].clone();
                ctx.exec(sim_files_spec(case, &[p.clone(), p], &[noisy.clone(), noisy.clone()], &[plan.clone(), plan]))
            }
            5 => {
                // the noisy file named directly and found again through the directory that holds it
                let Some(dir) = ctx.fresh_dir() else {
                    ctx.harness_error = Some("cannot create a directory".into());
                    return None;
                };
                let path = format!("{dir}/only.json");
                ctx.stats.probe("noisy file named directly and reached again through its directory");
                let args = if noisy.len() % 2 == 0 { vec![path.clone(), dir.clone()] } else { vec![dir.clone(), path.clone()] };
                let r = ctx.exec(sim_args_spec(case, &args, &[path], &[noisy.clone()], &case.files));
                let _ = std::fs::remove_dir_all(&dir);
                r
            }
            _ => ctx.exec(case_spec(case, &noisy)),
        };
        // read twice: the rows are those of the clean stream twice over (as one input: cutting
        // in a gap is invisible), and every region is met twice
        let twice = via >= 4;
        let clean_pol = if twice {
            let mut c2 = clean.clone();
            c2.push(b'\n');
            c2.extend_from_slice(&clean);
            let c = ctx.exec(ref_spec(case, &c2));
            if !c.outcome.is_ok() {
                ctx.stats.invalid = true;
                ctx.jawk_panic = None;
                return None;
            }
            c
        } else {
            clean_pol
        };
        // how far the run got: jawk's side of the stdin seam, or what the file device delivered
        let progressed = if via > 0 { r.obs.delivered } else { r.obs.consumed };
        if let Outcome::Abort(w) = &r.outcome {
            return viol("C06.terminates", format!("run aborted by the simulator: {w}"));
        }
        if matches!(r.outcome, Outcome::Panic(..)) {
            return None;
        }
        // Which regions did the run get to? Without --take nothing but the policy can end a
        // run before the end of the input: every region counts (the first one under `panic`).
        // With --take the run may legitimately stop before a region. How far jawk *read* does
        // not settle that (a reader may buffer ahead, or finish the value it is in): a region
        // counts only if its first byte was delivered AND a row of a later value was emitted,
        // i.e. more row bytes came out than the clean prefix before the region produces.
        let has_take = has_opt(&case.opts, "--take");
        let possible: Vec<&(usize, Vec<u8>)> = regs.iter().filter(|(o, _)| progressed > *o).collect();
        let reached: Vec<&(usize, Vec<u8>)> = if !has_take {
            if pol == Policy::Panic {
                regs.iter().take(1).collect()
            } else {
                regs.iter().collect()
            }
        } else {
            let row_bytes = if pol == Policy::Stdout {
                strip_error_lines(&r.obs.stdout).0.len()
            } else {
                r.obs.stdout.len()
            };
            let mut v = Vec::new();
            for reg in possible.iter().take(8) {
                let p = ctx.exec(ref_spec(&with_policy(case, Policy::Ignore), &reg.1));
                if p.outcome.is_ok() && row_bytes > p.obs.stdout.len() {
                    v.push(*reg);
                }
            }
            v
        };
        if reached.len() < possible.len() {
            ctx.stats.probe("regions delivered but not certainly parsed (run may have stopped first)");
        }
        ctx.stats.fault("garbage-region-reached", reached.len() as u64);
        ctx.stats.probe_n("garbage regions planned but never reached (run stopped first)", (regs.len() - reached.len()) as u64);
        if !reached.is_empty() {
            ctx.stats.nontrivial = true;
            ctx.stats.probe(&format!("noisy scenario under {pol:?}"));
            if reached.len() < regs.len() {
                ctx.stats.probe("some regions unreached");
            }
            if reached[0].0 <= 1 {
                ctx.stats.probe("garbage before the first value");
            }
            if case.pieces.iter().any(|p| p.tag == "glued-after") {
                ctx.stats.probe("noise glued to the end of the value in front of it");
            }
            if case.pieces.last().map_or(false, |p| p.kind == Kind::Garbage && p.tag == "at-eof") && reached.len() == regs.len() {
                ctx.stats.probe("garbage token ends exactly at end of input");
            }
            if case.pieces.last().map_or(false, |p| p.kind == Kind::Garbage && p.tag == "truncated") && reached.len() == regs.len() {
                ctx.stats.probe("stream ends inside a truncated value");
            }
        }
        let stdout_rule = |so: &[u8]| -> Option<Violation> {
            if so != clean_pol.obs.stdout.as_slice() {
                return viol(
                    "C06.rows",
                    format!(
                        "{pol:?}: rows differ from the run on the garbage-free stream (first difference at byte {}): {} vs {}",
                        common_prefix(so, &clean_pol.obs.stdout),
                        show(so),
                        show(&clean_pol.obs.stdout)
                    ),
                );
            }
            None
        };
        match pol {
            Policy::Ignore => {
                if !r.outcome.is_ok() {
                    return viol("C06.ignore", format!("run failed under ignore: {}", r.outcome.describe()));
                }
                if let Some(v) = stdout_rule(&r.obs.stdout) {
                    return Some(v);
                }
                if !r.obs.stderr.is_empty() {
                    return viol("C06.ignore", format!("ignore wrote to stderr: {}", show(&r.obs.stderr)));
                }
            }
            Policy::Stderr => {
                if !r.outcome.is_ok() {
                    return viol("C06.stderr", format!("run failed under stderr: {}", r.outcome.describe()));
                }
                if let Some(v) = stdout_rule(&r.obs.stdout) {
                    return Some(v);
                }
                match only_error_lines(&r.obs.stderr) {
                    Err(e) => return viol("C06.stderr", format!("stderr contains {e}")),
                    Ok(n) => {
                        if n < reached.len() * if twice { 2 } else { 1 } {
                            return viol(
                                "C06.stderr",
                                format!("{} malformed regions were reached but only {n} diagnostics were written", reached.len()),
                            );
                        }
                        if possible.is_empty() && n > 0 {
                            return viol("C06.stderr", format!("diagnostics without any reached garbage: {}", show(&r.obs.stderr)));
                        }
                    }
                }
            }
            Policy::Stdout => {
                if !r.outcome.is_ok() {
                    return viol("C06.stdout", format!("run failed under stdout: {}", r.outcome.describe()));
                }
                if !r.obs.stderr.is_empty() {
                    return viol("C06.stdout", format!("stdout policy wrote to stderr: {}", show(&r.obs.stderr)));
                }
                let (rest, at, unterminated) = strip_error_lines(&r.obs.stdout);
                if unterminated {
                    return viol("C06.stdout", "an unterminated diagnostic line on stdout".to_string());
                }
                if let Some(v) = stdout_rule(&rest) {
                    return Some(v);
                }
                if at.len() < reached.len() * if twice { 2 } else { 1 } {
                    return viol(
                        "C06.stdout",
                        format!("{} malformed regions were reached but only {} diagnostics were written", reached.len(), at.len()),
                    );
                }
                if possible.is_empty() && !at.is_empty() {
                    return viol("C06.stdout", "diagnostics without any reached garbage".to_string());
                }
                if class == Class::Stateless && reached.len() == possible.len() && !twice {
                    // placement: the diagnostics of a region sit after the rows of the values
                    // that precede it and before the row of the next value
                    let mut allowed = Vec::new();
                    // (a reference run per region: the first dozen regions of a long history)
                    let sampled = reached.len() > 12;
                    for (_, prefix) in reached.iter().take(12) {
                        let p = ctx.exec(ref_spec(&with_policy(case, Policy::Ignore), prefix));
                        if !p.outcome.is_ok() {
                            ctx.stats.invalid = true;
                            ctx.jawk_panic = None;
                            return None;
                        }
                        allowed.push(p.obs.stdout.len());
                    }
                    ctx.stats.probe("diagnostic placement checked");
                    // where the diagnostics sit among the rows is not promised by the property
                    // (a writer may batch rows): observed, not judged
                    if allowed.iter().all(|a| at.contains(a)) && (sampled || at.iter().all(|x| allowed.contains(x))) {
                        ctx.stats.probe("diagnostics interleaved with the rows exactly at their regions");
                    } else {
                        ctx.stats.probe("diagnostics not interleaved with the rows at their regions");
                    }
                }
            }
            Policy::Panic => {
                if reached.is_empty() && !possible.is_empty() && r.outcome.is_err() {
                    // --take may or may not have stopped the run before the first region; it
                    // did not: the rows must be those of the values preceding that region
                    if class != Class::Buffering {
                        let p = ctx.exec(ref_spec(&with_policy(case, Policy::Ignore), &regs[0].1));
                        if p.outcome.is_ok() && r.obs.stdout != p.obs.stdout {
                            return viol(
                                "C06.panic",
                                format!(
                                    "rows emitted before the failure are not exactly the rows of the values preceding the first malformed byte: {} vs {}",
                                    show(&r.obs.stdout),
                                    show(&p.obs.stdout)
                                ),
                            );
                        }
                    }
                } else if reached.is_empty() {
                    if !r.outcome.is_ok() {
                        return viol("C06.panic", format!("no garbage was reached but the run failed: {}", r.outcome.describe()));
                    }
                    if let Some(v) = stdout_rule(&r.obs.stdout) {
                        return Some(v);
                    }
                } else {
                    if !r.outcome.is_err() {
                        return viol(
                            "C06.panic",
                            format!("garbage at byte {} was consumed under panic but the run returned {}", regs[0].0, r.outcome.describe()),
                        );
                    }
                    let tail_truncated = case.pieces.last().map_or(false, |p| p.tag == "truncated");
                    if !tail_truncated && progressed > regs[0].0 + 1 + READ_AHEAD {
                        return viol(
                            "C06.panic",
                            format!("run went on for {} bytes past the first malformed byte", progressed - regs[0].0),
                        );
                    }
                    if progressed <= regs[0].0 + 2 {
                        ctx.stats.probe("panic stopped within the look-ahead byte");
                    }
                    if class != Class::Buffering {
                        let p = ctx.exec(ref_spec(&with_policy(case, Policy::Ignore), &regs[0].1));
                        if !p.outcome.is_ok() {
                            ctx.stats.invalid = true;
                            ctx.jawk_panic = None;
                            return None;
                        }
                        if r.obs.stdout != p.obs.stdout {
                            return viol(
                                "C06.panic",
                                format!(
                                    "rows emitted before the failure are not exactly the rows of the values preceding the first malformed byte: {} vs {}",
                                    show(&r.obs.stdout),
                                    show(&p.obs.stdout)
                                ),
                            );
                        }
                    }
                }
                if !r.obs.stderr.is_empty() {
                    return viol("C06.panic", format!("panic policy wrote to stderr: {}", show(&r.obs.stderr)));
                }
            }
        }
        None
    }
}

/// never insert inside a (Rec, Gap) pair in a way that would make two values touch garbage
/// without whitespace: garbage regions carry their own whitespace, so any index is fine.
fn fix_insert_point(_pieces: &[Piece], at: usize) -> usize {
    at
}
