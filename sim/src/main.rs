//! jawk-sim: deterministic simulation with fault injection for yift/jawk.
//!   jawk-sim check <ID> <quick|thorough>
//!   jawk-sim replay <file>
//!   jawk-sim digest <ID> <from> <count>     (determinism proof: one digest line per seed)
//!   jawk-sim show <ID> <index>              (print the generated case)

mod case;
mod common;
mod driver;
mod funcs;
mod gen;
mod known;
mod props;
mod rng;
mod run;
mod shrink;
mod world;

use common::{Ctx, Tier};

fn main() {
    run::install_panic_hook();
    let args: Vec<String> = std::env::args().collect();
    let code = match args.get(1).map(String::as_str) {
        Some("check") => {
            let id = args.get(2).cloned().unwrap_or_default();
            let tier = match std::env::var("VERIF_TIER").ok().as_deref().or(args.get(3).map(String::as_str)) {
                Some("thorough") => Tier::Thorough,
                _ => Tier::Quick,
            };
            match props::by_id(&id) {
                Some(_) => driver::supervise(&id, tier),
                None => {
                    println!("HARNESS-ERROR unknown property {id}");
                    2
                }
            }
        }
        Some("batch") => {
            let id = args.get(2).cloned().unwrap_or_default();
            let tier = if args.get(3).map(String::as_str) == Some("thorough") {
                Tier::Thorough
            } else {
                Tier::Quick
            };
            match props::by_id(&id) {
                Some(p) => driver::run_batch(p, tier).exit,
                None => 2,
            }
        }
        Some("one") => {
            let id = args.get(2).cloned().unwrap_or_default();
            let index: u64 = args.get(3).and_then(|s| s.parse().ok()).unwrap_or(0);
            let tier = if args.get(4).map(String::as_str) == Some("thorough") {
                Tier::Thorough
            } else {
                Tier::Quick
            };
            driver::one(&id, index, tier)
        }
        Some("replay") => match args.get(2) {
            Some(p) => driver::replay_supervised(std::path::Path::new(p)),
            None => 2,
        },
        Some("replay-inner") => match args.get(2) {
            Some(p) => driver::replay(std::path::Path::new(p)),
            None => 2,
        },
        Some("digest") => {
            let id = args.get(2).cloned().unwrap_or_default();
            let from: u64 = args.get(3).and_then(|s| s.parse().ok()).unwrap_or(0);
            let count: u64 = args.get(4).and_then(|s| s.parse().ok()).unwrap_or(100);
            let tier = if args.get(5).map(String::as_str) == Some("thorough") {
                Tier::Thorough
            } else {
                Tier::Quick
            };
            match props::by_id(&id) {
                Some(_) => {
                    let seed = driver::seed_from_env();
                    let n = driver::workers_from_env();
                    let mut handles = Vec::new();
                    for wi in 0..n {
                        let id = id.clone();
                        handles.push(std::thread::spawn(move || {
                            let p = props::by_id(&id).unwrap();
                            let tmp = driver::worker_tmp(&format!("digest{wi}"));
                            let mut lines = Vec::new();
                            let mut i = from + wi as u64;
                            while i < from + count {
                                let case = driver::generate_case(p.as_ref(), seed, i, tier);
                                let mut ctx = Ctx::new(tier, tmp.clone());
                                let v = driver::full_check(p.as_ref(), &case, &mut ctx).unwrap_or(None);
                                lines.push((
                                    i,
                                    format!(
                                        "{i} {:016x} runs={} events={} viol={}",
                                        driver::digest_of(&case, &v, ctx.stats.trace),
                                        ctx.stats.runs,
                                        ctx.stats.events,
                                        v.map_or(String::from("-"), |v| v.rule)
                                    ),
                                ));
                                i += n as u64;
                            }
                            let _ = std::fs::remove_dir_all(&tmp);
                            lines
                        }));
                    }
                    let mut all = Vec::new();
                    for h in handles {
                        all.extend(h.join().unwrap_or_default());
                    }
                    all.sort();
                    for (_, l) in all {
                        println!("{l}");
                    }
                    0
                }
                None => 2,
            }
        }
        Some("show") => {
            let id = args.get(2).cloned().unwrap_or_default();
            let index: u64 = args.get(3).and_then(|s| s.parse().ok()).unwrap_or(0);
            match props::by_id(&id) {
                Some(p) => {
                    let seed = driver::seed_from_env();
                    let case = driver::generate_case(p.as_ref(), seed, index, Tier::Quick);
                    println!("{}", serde_json::to_string_pretty(&case).unwrap());
                    0
                }
                None => 2,
            }
        }
        _ => {
            println!("usage: jawk-sim check <ID> <quick|thorough> | replay <file> | digest <ID> <from> <count> | show <ID> <index>");
            2
        }
    };
    std::process::exit(code);
}
