//! Known findings: genuine defects of the pinned tree that are recorded, not repaired.
//! The file is committed and never written at run time. An entry matches a violation only
//! through its rule and a structural fingerprint, never a whole property.

use crate::case::Case;
use serde::Deserialize;
use std::path::Path;

#[derive(Clone, Debug, Deserialize)]
pub struct Finding {
    pub property: String,
    pub id: String,
    pub rule: String,
    /// every listed substring must occur in the violation detail
    #[serde(default)]
    pub detail_contains: Vec<String>,
    /// named structural predicate over the failing case (see `predicate`)
    #[serde(default)]
    pub predicate: Option<String>,
    pub description: String,
}

#[derive(Clone, Debug, Default, Deserialize)]
pub struct KnownFile {
    #[serde(default)]
    pub findings: Vec<Finding>,
    #[serde(default)]
    pub fixed: Vec<String>,
}

pub fn load(root: &Path) -> KnownFile {
    let p = root.join("known_findings.json");
    match std::fs::read_to_string(&p) {
        Ok(t) => serde_json::from_str(&t).unwrap_or_else(|e| {
            println!("HARNESS-ERROR cannot parse {}: {e}", p.display());
            std::process::exit(2);
        }),
        Err(_) => KnownFile::default(),
    }
}

fn predicate(name: &str, case: &Case, detail: &str) -> bool {
    let _ = (case, detail);
    match name {
        _ => false,
    }
}

pub fn matches<'a>(k: &'a KnownFile, prop: &str, rule: &str, case: &Case, detail: &str) -> Option<&'a Finding> {
    k.findings.iter().find(|f| {
        f.property == prop
            && f.rule == rule
            && f.detail_contains.iter().all(|s| detail.contains(s.as_str()))
            && f.predicate.as_ref().map_or(true, |p| predicate(p, case, detail))
    })
}
