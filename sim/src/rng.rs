//! Hand-written PRNG (SplitMix64 seeding xoshiro256**), so that one integer means the same
//! execution forever, independent of any crate version.

#[derive(Clone, Debug)]
pub struct Rng {
    s: [u64; 4],
}

pub fn splitmix(state: &mut u64) -> u64 {
    *state = state.wrapping_add(0x9E37_79B9_7F4A_7C15);
    let mut z = *state;
    z = (z ^ (z >> 30)).wrapping_mul(0xBF58_476D_1CE4_E5B9);
    z = (z ^ (z >> 27)).wrapping_mul(0x94D0_49BB_1331_11EB);
    z ^ (z >> 31)
}

/// Mix several integers into one seed (order sensitive).
pub fn mix(parts: &[u64]) -> u64 {
    let mut st = 0x243F_6A88_85A3_08D3u64;
    let mut acc = 0u64;
    for p in parts {
        st ^= *p;
        acc = acc.rotate_left(23) ^ splitmix(&mut st);
    }
    splitmix(&mut acc)
}

pub fn hash_bytes(b: &[u8]) -> u64 {
    // FNV-1a 64 followed by a splitmix finaliser; used for digests and trace hashes only.
    let mut h = 0xcbf2_9ce4_8422_2325u64;
    for x in b {
        h ^= u64::from(*x);
        h = h.wrapping_mul(0x0000_0100_0000_01B3);
    }
    let mut s = h;
    splitmix(&mut s)
}

impl Rng {
    pub fn new(seed: u64) -> Self {
        let mut st = seed;
        let s = [
            splitmix(&mut st),
            splitmix(&mut st),
            splitmix(&mut st),
            splitmix(&mut st),
        ];
        Rng { s }
    }

    pub fn next_u64(&mut self) -> u64 {
        let result = self.s[1].wrapping_mul(5).rotate_left(7).wrapping_mul(9);
        let t = self.s[1] << 17;
        self.s[2] ^= self.s[0];
        self.s[3] ^= self.s[1];
        self.s[1] ^= self.s[2];
        self.s[0] ^= self.s[3];
        self.s[2] ^= t;
        self.s[3] = self.s[3].rotate_left(45);
        result
    }

    /// Uniform in [0, n). n == 0 returns 0.
    pub fn below(&mut self, n: usize) -> usize {
        if n <= 1 {
            return 0;
        }
        (self.next_u64() % (n as u64)) as usize
    }

    /// Uniform in [lo, hi] inclusive.
    pub fn range(&mut self, lo: usize, hi: usize) -> usize {
        if hi <= lo {
            return lo;
        }
        lo + self.below(hi - lo + 1)
    }

    pub fn range_i64(&mut self, lo: i64, hi: i64) -> i64 {
        if hi <= lo {
            return lo;
        }
        let span = (hi - lo) as u64 + 1;
        lo + (self.next_u64() % span) as i64
    }

    /// true with probability num/den
    pub fn chance(&mut self, num: usize, den: usize) -> bool {
        self.below(den) < num
    }

    pub fn pick<'a, T>(&mut self, xs: &'a [T]) -> &'a T {
        &xs[self.below(xs.len())]
    }

    pub fn shuffle<T>(&mut self, xs: &mut [T]) {
        for i in (1..xs.len()).rev() {
            let j = self.below(i + 1);
            xs.swap(i, j);
        }
    }

    pub fn fork(&mut self) -> Rng {
        Rng::new(self.next_u64())
    }
}
