//! The simulated world: the three I/O seams of `jawk::go` (stdin factory, stdout, stderr) as
//! stubs that log every call into one sequence-numbered event history and deliver faults
//! from plans that are indexed by byte offset.

use serde::{Deserialize, Serialize};
use std::io::{self, BufReader, Read, Write};
use std::sync::{Arc, Mutex};

#[derive(Clone, Copy, Debug, PartialEq, Eq, Hash, Serialize, Deserialize)]
pub enum ErrKind {
    Other,
    BrokenPipe,
    UnexpectedEof,
    InvalidData,
    TimedOut,
    WouldBlock,
    PermissionDenied,
    StorageFull,
    ConnectionReset,
}

impl ErrKind {
    pub fn to_io(self) -> io::Error {
        let k = match self {
            ErrKind::Other => io::ErrorKind::Other,
            ErrKind::BrokenPipe => io::ErrorKind::BrokenPipe,
            ErrKind::UnexpectedEof => io::ErrorKind::UnexpectedEof,
            ErrKind::InvalidData => io::ErrorKind::InvalidData,
            ErrKind::TimedOut => io::ErrorKind::TimedOut,
            ErrKind::WouldBlock => io::ErrorKind::WouldBlock,
            ErrKind::PermissionDenied => io::ErrorKind::PermissionDenied,
            ErrKind::StorageFull => io::ErrorKind::StorageFull,
            ErrKind::ConnectionReset => io::ErrorKind::ConnectionReset,
        };
        io::Error::new(k, "sim-fault")
    }
    pub const READ_KINDS: [ErrKind; 8] = [
        ErrKind::Other,
        ErrKind::BrokenPipe,
        ErrKind::UnexpectedEof,
        ErrKind::InvalidData,
        ErrKind::TimedOut,
        ErrKind::WouldBlock,
        ErrKind::PermissionDenied,
        ErrKind::ConnectionReset,
    ];
    pub const WRITE_KINDS: [ErrKind; 5] = [
        ErrKind::StorageFull,
        ErrKind::BrokenPipe,
        ErrKind::Other,
        ErrKind::PermissionDenied,
        ErrKind::WouldBlock,
    ];
}

#[derive(Clone, Copy, Debug, PartialEq, Eq, Hash)]
pub enum Chan {
    Open,
    Read,
    Out,
    Err,
    FlushOut,
    FlushErr,
    /// a directory listing was opened (hook H3); `src` = index of the simulated directory
    ListOpen,
    /// the next entry of a listing was asked for; `at` = position in the listing
    ListNext,
}

#[derive(Clone, Copy, Debug, PartialEq, Eq, Hash)]
pub enum Res {
    N(u32),
    Eof,
    Intr,
    Zero,
    Fail(ErrKind),
    Done,
}

/// One call into a stub. `seq` is the global order; `at` the stub's byte offset before the
/// call; `consumed` the number of input bytes jawk had pulled through the stdin seam when
/// the call happened (jawk's side of any harness-owned BufReader).
#[derive(Clone, Copy, Debug)]
pub struct Event {
    pub seq: u32,
    /// which source a Read/Open event belongs to: 0 = stdin, i + 1 = i-th simulated file
    pub src: u8,
    pub chan: Chan,
    pub at: u32,
    pub asked: u32,
    pub res: Res,
    pub consumed: u32,
    /// bytes delivered by all source devices (stdin and files) when the call happened
    pub delivered: u32,
}

#[derive(Clone, Debug, Default, Serialize, Deserialize, PartialEq)]
pub struct Delivery {
    /// D0: hand jawk the bytes as one in-memory slice (no SimSource at all).
    #[serde(default)]
    pub whole: bool,
    /// cyclic chunk limits of the device (empty = unlimited)
    #[serde(default)]
    pub chunks: Vec<usize>,
    /// (offset, count): `count` Interrupted results before the byte at `offset` is delivered
    #[serde(default)]
    pub eintr: Vec<(usize, u32)>,
    /// harness-owned BufReader capacity between device and jawk (None = raw)
    #[serde(default)]
    pub bufcap: Option<usize>,
}

#[derive(Clone, Debug, Serialize, Deserialize, PartialEq)]
pub struct Fault {
    pub at: usize,
    pub kind: ErrKind,
    pub sticky: bool,
}

/// Endless tail: record k is `template` with every "@@" replaced by decimal(start + k).
#[derive(Clone, Debug, Serialize, Deserialize, PartialEq)]
pub struct Endless {
    pub template: String,
    pub start: u64,
    /// Some(p): the tail repeats with period p (records k and k + p are the same text)
    #[serde(default, skip_serializing_if = "Option::is_none")]
    pub period: Option<u64>,
}

impl Endless {
    pub fn record(&self, k: u64) -> Vec<u8> {
        let k = match self.period {
            Some(p) if p > 0 => k % p,
            _ => k,
        };
        self.template
            .replace("@@", &(self.start + k).to_string())
            .into_bytes()
    }
}

#[derive(Clone, Debug, Default, Serialize, Deserialize, PartialEq)]
pub struct SinkPlan {
    #[serde(default)]
    pub short: Vec<usize>,
    #[serde(default)]
    pub eintr: Vec<(usize, u32)>,
    /// Ok(0) once at this offset
    #[serde(default)]
    pub zero_at: Option<usize>,
    #[serde(default)]
    pub fail: Option<Fault>,
    /// every call fails from the start (hostile device)
    #[serde(default)]
    pub hostile: bool,
    /// writes are accepted, flush() fails (a buffering device whose medium is full)
    #[serde(default, skip_serializing_if = "std::ops::Not::not")]
    pub flush_fails: bool,
}

/// How one simulated file argument is delivered (hook H2). The content comes from the case.
#[derive(Clone, Debug, Default, Serialize, Deserialize, PartialEq)]
pub struct FilePlan {
    /// cyclic chunk limits of the device (empty = unlimited)
    #[serde(default)]
    pub chunks: Vec<usize>,
    #[serde(default)]
    pub eintr: Vec<(usize, u32)>,
    #[serde(default, skip_serializing_if = "Option::is_none")]
    pub fault: Option<Fault>,
    #[serde(default, skip_serializing_if = "Option::is_none")]
    pub endless: Option<Endless>,
    /// the open itself fails
    #[serde(default, skip_serializing_if = "Option::is_none")]
    pub open_fails: Option<ErrKind>,
    /// the open never returns (a FIFO nobody writes to): the simulator ends the run
    #[serde(default, skip_serializing_if = "std::ops::Not::not")]
    pub open_blocks: bool,
}

/// How one simulated directory is listed (hook H3). Which entries it has comes from the
/// scenario's layout; this is the order they are listed in and what goes wrong.
#[derive(Clone, Debug, Default, Serialize, Deserialize, PartialEq)]
pub struct DirPlan {
    /// the listing yields the directory's entries in this order (indices into the layout's
    /// entry list; indices that are missing are appended in layout order)
    #[serde(default)]
    pub order: Vec<usize>,
    /// opening the listing fails
    #[serde(default, skip_serializing_if = "Option::is_none")]
    pub open_fails: Option<ErrKind>,
    /// asking for the entry at this position of the listing fails (`at` = number of entries:
    /// the call that would have reported the end of the listing fails instead). Sticky: every
    /// later call fails too; otherwise the listing goes on with the entry at that position.
    #[serde(default, skip_serializing_if = "Option::is_none")]
    pub entry_fault: Option<Fault>,
}

pub const POST_FAULT_CALLS: u32 = 64;

pub struct SimAbort(pub String);

struct SourceState {
    data: Vec<u8>,
    pos: usize,
    chunk_idx: usize,
    chunks: Vec<usize>,
    eintr: Vec<(usize, u32)>,
    fault: Option<Fault>,
    fault_delivered: bool,
    post_fault_calls: u32,
    ok_reads_after_fault: u32,
    hostile: bool,
    endless: Option<Endless>,
    endless_k: u64,
    eof_polls: u32,
    intr_delivered: u32,
    short_reads: u32,
    byte_budget: usize,
    opened: u32,
    open_fails: Option<ErrKind>,
    open_blocks: bool,
}

struct DirState {
    path: String,
    /// full paths, in listing order
    entries: Vec<String>,
    open_fails: Option<ErrKind>,
    fault: Option<Fault>,
    fault_delivered: bool,
    post_fault_calls: u32,
    opened: u32,
    yielded: u32,
}

struct SinkState {
    data: Vec<u8>,
    plan: SinkPlan,
    short_idx: usize,
    fault_delivered: bool,
    fault_offset: usize,
    zero_delivered: bool,
    post_fault_calls: u32,
    intr_delivered: u32,
    short_writes: u32,
    calls: u32,
}

pub struct World {
    seq: u32,
    log: Vec<Event>,
    max_events: usize,
    consumed: usize,
    delivered: usize,
    opened: u32,
    /// index 0 = stdin, i + 1 = i-th simulated file
    srcs: Vec<SourceState>,
    dirs: Vec<DirState>,
    cur_src: u8,
    /// a fatal read failure was delivered on some source
    any_rfault: bool,
    ok_reads_after_any_rfault: u32,
    opens_after_any_rfault: u32,
    out: SinkState,
    err: SinkState,
    aborted: Option<String>,
}

pub type Shared = Arc<Mutex<World>>;

fn lock(w: &Shared) -> std::sync::MutexGuard<'_, World> {
    w.lock().unwrap_or_else(std::sync::PoisonError::into_inner)
}

impl World {
    fn push(&mut self, chan: Chan, at: usize, asked: usize, res: Res) -> Result<(), String> {
        self.seq += 1;
        if self.log.len() >= self.max_events {
            return Err(format!("event budget of {} exhausted", self.max_events));
        }
        self.log.push(Event {
            seq: self.seq,
            src: if matches!(chan, Chan::Read | Chan::Open | Chan::ListOpen | Chan::ListNext) { self.cur_src } else { 0 },
            chan,
            at: at as u32,
            asked: asked as u32,
            res,
            consumed: self.consumed as u32,
            delivered: self.delivered as u32,
        });
        Ok(())
    }
}

/// End the run: the simulator's verdict is recorded in the world and the thread unwinds
/// out of jawk. If the thread is unwinding already (jawk writes or reads from a destructor
/// while an earlier abort or a panic of its own travels up), a second panic would kill the
/// process: the call then fails with an ordinary I/O error instead, as every later call on
/// an aborted world does.
fn abort(w: &Shared, mut g: std::sync::MutexGuard<'_, World>, why: String) -> io::Error {
    if g.aborted.is_none() {
        g.aborted = Some(why.clone());
    }
    drop(g);
    let _ = w;
    if std::thread::panicking() {
        return io::Error::new(io::ErrorKind::Other, "sim-aborted");
    }
    std::panic::panic_any(SimAbort(why));
}

pub struct SimSource {
    w: Shared,
    which: usize,
}

impl Read for SimSource {
    fn read(&mut self, buf: &mut [u8]) -> io::Result<usize> {
        let mut g = lock(&self.w);
        if g.aborted.is_some() {
            return Err(io::Error::new(io::ErrorKind::Other, "sim-aborted"));
        }
        let which = self.which;
        g.cur_src = which as u8;
        macro_rules! src {
            () => {
                g.srcs[which]
            };
        }
        let asked = buf.len();
        let pos = src!().pos;
        if src!().hostile {
            src!().post_fault_calls += 1;
            src!().fault_delivered = true;
            g.any_rfault = true;
            if src!().post_fault_calls > POST_FAULT_CALLS {
                return Err(abort(&self.w, g, "read retried more than 64 times after a failure".into()));
            }
            if let Err(e) = g.push(Chan::Read, pos, asked, Res::Fail(ErrKind::Other)) {
                return Err(abort(&self.w, g, e));
            }
            return Err(ErrKind::Other.to_io());
        }
        if src!().fault_delivered {
            if let Some(f) = src!().fault.clone() {
                if f.sticky {
                    src!().post_fault_calls += 1;
                    if src!().post_fault_calls > POST_FAULT_CALLS {
                        return Err(abort(&self.w, g, "read retried more than 64 times after a failure".into()));
                    }
                    if let Err(e) = g.push(Chan::Read, pos, asked, Res::Fail(f.kind)) {
                        return Err(abort(&self.w, g, e));
                    }
                    return Err(f.kind.to_io());
                }
            }
        }
        if asked == 0 {
            if let Err(e) = g.push(Chan::Read, pos, 0, Res::N(0)) {
                return Err(abort(&self.w, g, e));
            }
            return Ok(0);
        }
        // pending Interrupted results at this offset
        let mut intr = false;
        for e in src!().eintr.iter_mut() {
            if e.0 == pos && e.1 > 0 {
                e.1 -= 1;
                intr = true;
                break;
            }
        }
        if intr {
            src!().intr_delivered += 1;
            if let Err(e) = g.push(Chan::Read, pos, asked, Res::Intr) {
                return Err(abort(&self.w, g, e));
            }
            return Err(io::Error::new(io::ErrorKind::Interrupted, "sim-eintr"));
        }
        if !src!().fault_delivered {
            if let Some(f) = src!().fault.clone() {
                if f.at == pos {
                    src!().fault_delivered = true;
                    g.any_rfault = true;
                    if let Err(e) = g.push(Chan::Read, pos, asked, Res::Fail(f.kind)) {
                        return Err(abort(&self.w, g, e));
                    }
                    return Err(f.kind.to_io());
                }
            }
        }
        // refill from the endless tail if the finite part is exhausted
        if src!().pos + asked > src!().data.len() {
            if let Some(en) = src!().endless.clone() {
                if src!().pos > src!().byte_budget {
                    return Err(abort(
                        &self.w,
                        g,
                        "endless source: byte budget exhausted (jawk keeps reading)".into(),
                    ));
                }
                // an endless producer always has data ready: fill the whole request
                while src!().pos + asked > src!().data.len() {
                    let k = src!().endless_k;
                    src!().endless_k += 1;
                    let rec = en.record(k);
                    src!().data.extend_from_slice(&rec);
                }
            }
        }
        let avail = src!().data.len() - src!().pos;
        if avail == 0 {
            src!().eof_polls += 1;
            if src!().fault_delivered {
                src!().ok_reads_after_fault += 1;
            }
            if g.any_rfault {
                g.ok_reads_after_any_rfault += 1;
            }
            if let Err(e) = g.push(Chan::Read, pos, asked, Res::Eof) {
                return Err(abort(&self.w, g, e));
            }
            return Ok(0);
        }
        let mut n = asked.min(avail);
        if !src!().chunks.is_empty() {
            let i = src!().chunk_idx % src!().chunks.len();
            src!().chunk_idx += 1;
            n = n.min(src!().chunks[i].max(1));
        }
        // never straddle an offset at which something is planned
        let mut stop = usize::MAX;
        if !src!().fault_delivered {
            if let Some(f) = &src!().fault {
                if f.at > pos {
                    stop = stop.min(f.at);
                }
            }
        }
        for e in &src!().eintr {
            if e.0 > pos && e.1 > 0 {
                stop = stop.min(e.0);
            }
        }
        if stop != usize::MAX {
            n = n.min(stop - pos);
        }
        if n < asked.min(avail) {
            src!().short_reads += 1;
        }
        buf[..n].copy_from_slice(&src!().data[pos..pos + n]);
        src!().pos += n;
        g.delivered += n;
        if src!().fault_delivered {
            src!().ok_reads_after_fault += 1;
        }
        if g.any_rfault {
            g.ok_reads_after_any_rfault += 1;
        }
        if let Err(e) = g.push(Chan::Read, pos, asked, Res::N(n as u32)) {
            return Err(abort(&self.w, g, e));
        }
        Ok(n)
    }
}

pub struct SimSink {
    w: Shared,
    is_err: bool,
}

impl SimSink {
    fn chan(&self) -> Chan {
        if self.is_err {
            Chan::Err
        } else {
            Chan::Out
        }
    }
}

impl Write for SimSink {
    fn write(&mut self, buf: &[u8]) -> io::Result<usize> {
        let chan = self.chan();
        let mut g = lock(&self.w);
        if g.aborted.is_some() {
            return Err(io::Error::new(io::ErrorKind::Other, "sim-aborted"));
        }
        let asked = buf.len();
        let is_err = self.is_err;
        macro_rules! sink {
            () => {
                if is_err {
                    &mut g.err
                } else {
                    &mut g.out
                }
            };
        }
        let pos = sink!().data.len();
        sink!().calls += 1;
        if sink!().plan.hostile {
            sink!().fault_delivered = true;
            sink!().post_fault_calls += 1;
            if sink!().post_fault_calls > POST_FAULT_CALLS {
                return Err(abort(&self.w, g, "write retried more than 64 times after a failure".into()));
            }
            if let Err(e) = g.push(chan, pos, asked, Res::Fail(ErrKind::Other)) {
                return Err(abort(&self.w, g, e));
            }
            return Err(ErrKind::Other.to_io());
        }
        if sink!().fault_delivered {
            if let Some(f) = sink!().plan.fail.clone() {
                if f.sticky {
                    sink!().post_fault_calls += 1;
                    if sink!().post_fault_calls > POST_FAULT_CALLS {
                        return Err(abort(&self.w, g, "write retried more than 64 times after a failure".into()));
                    }
                    if let Err(e) = g.push(chan, pos, asked, Res::Fail(f.kind)) {
                        return Err(abort(&self.w, g, e));
                    }
                    return Err(f.kind.to_io());
                }
            }
        }
        if asked == 0 {
            if let Err(e) = g.push(chan, pos, 0, Res::N(0)) {
                return Err(abort(&self.w, g, e));
            }
            return Ok(0);
        }
        let mut intr = false;
        for e in sink!().plan.eintr.iter_mut() {
            if e.0 == pos && e.1 > 0 {
                e.1 -= 1;
                intr = true;
                break;
            }
        }
        if intr {
            sink!().intr_delivered += 1;
            if let Err(e) = g.push(chan, pos, asked, Res::Intr) {
                return Err(abort(&self.w, g, e));
            }
            return Err(io::Error::new(io::ErrorKind::Interrupted, "sim-eintr"));
        }
        // a device that stops accepting bytes: Ok(0) from this offset on, forever
        if sink!().plan.zero_at == Some(pos) {
            if !sink!().zero_delivered {
                sink!().zero_delivered = true;
                sink!().fault_delivered = true;
                sink!().fault_offset = pos;
            }
            sink!().post_fault_calls += 1;
            if sink!().post_fault_calls > POST_FAULT_CALLS {
                return Err(abort(&self.w, g, "write retried more than 64 times after Ok(0)".into()));
            }
            if let Err(e) = g.push(chan, pos, asked, Res::Zero) {
                return Err(abort(&self.w, g, e));
            }
            return Ok(0);
        }
        if !sink!().fault_delivered {
            if let Some(f) = sink!().plan.fail.clone() {
                if f.at == pos {
                    sink!().fault_delivered = true;
                    sink!().fault_offset = pos;
                    if let Err(e) = g.push(chan, pos, asked, Res::Fail(f.kind)) {
                        return Err(abort(&self.w, g, e));
                    }
                    return Err(f.kind.to_io());
                }
            }
        }
        let mut n = asked;
        if !sink!().plan.short.is_empty() {
            let l = sink!().plan.short.len();
            let i = sink!().short_idx % l;
            sink!().short_idx += 1;
            n = n.min(sink!().plan.short[i].max(1));
        }
        let mut stop = usize::MAX;
        if !sink!().fault_delivered {
            if let Some(f) = &sink!().plan.fail {
                if f.at > pos {
                    stop = stop.min(f.at);
                }
            }
        }
        if !sink!().zero_delivered {
            if let Some(z) = sink!().plan.zero_at {
                if z > pos {
                    stop = stop.min(z);
                }
            }
        }
        for e in &sink!().plan.eintr {
            if e.0 > pos && e.1 > 0 {
                stop = stop.min(e.0);
            }
        }
        if stop != usize::MAX {
            n = n.min(stop - pos);
        }
        if n < asked {
            sink!().short_writes += 1;
        }
        sink!().data.extend_from_slice(&buf[..n]);
        if let Err(e) = g.push(chan, pos, asked, Res::N(n as u32)) {
            return Err(abort(&self.w, g, e));
        }
        Ok(n)
    }

    fn flush(&mut self) -> io::Result<()> {
        let chan = if self.is_err {
            Chan::FlushErr
        } else {
            Chan::FlushOut
        };
        let mut g = lock(&self.w);
        if g.aborted.is_some() {
            return Err(io::Error::new(io::ErrorKind::Other, "sim-aborted"));
        }
        let is_err = self.is_err;
        let (pos, failed) = {
            let s = if is_err { &g.err } else { &g.out };
            let sticky_failed = s.plan.hostile
                || s.plan.flush_fails
                || (s.fault_delivered && s.plan.fail.as_ref().map_or(false, |f| f.sticky));
            (s.data.len(), sticky_failed)
        };
        if let Err(e) = g.push(chan, pos, 0, Res::Done) {
            return Err(abort(&self.w, g, e));
        }
        if failed {
            return Err(ErrKind::Other.to_io());
        }
        Ok(())
    }
}

/// Counts what jawk actually pulls through the stdin seam (outside any harness BufReader).
pub struct Counting<R: Read> {
    inner: R,
    w: Shared,
}

impl<R: Read> Read for Counting<R> {
    fn read(&mut self, buf: &mut [u8]) -> io::Result<usize> {
        let r = self.inner.read(buf);
        if let Ok(n) = &r {
            let mut g = lock(&self.w);
            g.consumed += *n;
        }
        r
    }
}

pub enum SimIn {
    Slice(Counting<io::Cursor<Vec<u8>>>),
    Raw(Counting<SimSource>),
    Buf(Counting<BufReader<SimSource>>),
}

impl Read for SimIn {
    #[inline]
    fn read(&mut self, buf: &mut [u8]) -> io::Result<usize> {
        match self {
            SimIn::Slice(r) => r.read(buf),
            SimIn::Raw(r) => r.read(buf),
            SimIn::Buf(r) => r.read(buf),
        }
    }
}

pub struct FileSrc {
    pub data: Vec<u8>,
    pub plan: FilePlan,
    pub byte_budget: usize,
}

pub struct DirSrc {
    pub path: String,
    /// full paths of the entries, already in listing order
    pub entries: Vec<String>,
    pub open_fails: Option<ErrKind>,
    pub entry_fault: Option<Fault>,
}

pub struct WorldSpec {
    pub dirs: Vec<DirSrc>,
    pub input: Vec<u8>,
    pub delivery: Delivery,
    pub rfault: Option<Fault>,
    pub hostile_stdin: bool,
    pub endless: Option<Endless>,
    pub byte_budget: usize,
    pub files: Vec<FileSrc>,
    pub out: SinkPlan,
    pub err: SinkPlan,
    pub max_events: usize,
}

fn source(
    data: Vec<u8>,
    chunks: Vec<usize>,
    eintr: Vec<(usize, u32)>,
    fault: Option<Fault>,
    hostile: bool,
    endless: Option<Endless>,
    byte_budget: usize,
    open_fails: Option<ErrKind>,
    open_blocks: bool,
) -> SourceState {
    SourceState {
        data,
        pos: 0,
        chunk_idx: 0,
        chunks,
        eintr,
        fault,
        fault_delivered: false,
        post_fault_calls: 0,
        ok_reads_after_fault: 0,
        hostile,
        endless,
        endless_k: 0,
        eof_polls: 0,
        intr_delivered: 0,
        short_reads: 0,
        byte_budget,
        opened: 0,
        open_fails,
        open_blocks,
    }
}

pub fn new_world(spec: WorldSpec) -> Shared {
    let sink = |p: SinkPlan| SinkState {
        data: Vec::new(),
        plan: p,
        short_idx: 0,
        fault_delivered: false,
        fault_offset: 0,
        zero_delivered: false,
        post_fault_calls: 0,
        intr_delivered: 0,
        short_writes: 0,
        calls: 0,
    };
    let mut srcs = vec![source(
        spec.input,
        spec.delivery.chunks.clone(),
        spec.delivery.eintr.clone(),
        spec.rfault,
        spec.hostile_stdin,
        spec.endless,
        spec.byte_budget,
        None,
        false,
    )];
    for f in spec.files {
        srcs.push(source(
            f.data,
            f.plan.chunks,
            f.plan.eintr,
            f.plan.fault,
            false,
            f.plan.endless,
            f.byte_budget,
            f.plan.open_fails,
            f.plan.open_blocks,
        ));
    }
    Arc::new(Mutex::new(World {
        seq: 0,
        log: Vec::new(),
        max_events: spec.max_events,
        consumed: 0,
        delivered: 0,
        opened: 0,
        srcs,
        dirs: spec
            .dirs
            .into_iter()
            .map(|d| DirState {
                path: d.path,
                entries: d.entries,
                open_fails: d.open_fails,
                fault: d.entry_fault,
                fault_delivered: false,
                post_fault_calls: 0,
                opened: 0,
                yielded: 0,
            })
            .collect(),
        cur_src: 0,
        any_rfault: false,
        ok_reads_after_any_rfault: 0,
        opens_after_any_rfault: 0,
        out: sink(spec.out),
        err: sink(spec.err),
        aborted: None,
    }))
}

pub fn open_stdin(w: &Shared, delivery: &Delivery) -> SimIn {
    let mut g = lock(w);
    g.opened += 1;
    g.cur_src = 0;
    g.srcs[0].opened += 1;
    if g.any_rfault {
        g.opens_after_any_rfault += 1;
    }
    let _ = g.push(Chan::Open, 0, 0, Res::Done);
    if delivery.whole {
        let data = g.srcs[0].data.clone();
        drop(g);
        return SimIn::Slice(Counting {
            inner: io::Cursor::new(data),
            w: w.clone(),
        });
    }
    drop(g);
    let src = SimSource { w: w.clone(), which: 0 };
    match delivery.bufcap {
        None => SimIn::Raw(Counting {
            inner: src,
            w: w.clone(),
        }),
        Some(cap) => SimIn::Buf(Counting {
            inner: BufReader::with_capacity(cap.max(1), src),
            w: w.clone(),
        }),
    }
}

/// Open the i-th simulated file (hook H2). jawk wraps the result in its own BufReader.
pub fn open_file(w: &Shared, i: usize) -> io::Result<SimSource> {
    let mut g = lock(w);
    let which = i + 1;
    g.cur_src = which as u8;
    g.srcs[which].opened += 1;
    if g.srcs[which].opened > 1 {
        // the same path named again on the command line: a fresh reading from the start
        g.srcs[which].pos = 0;
        g.srcs[which].chunk_idx = 0;
    }
    if g.any_rfault {
        g.opens_after_any_rfault += 1;
    }
    if g.srcs[which].open_blocks {
        let _ = g.push(Chan::Open, 0, 0, Res::Fail(ErrKind::WouldBlock));
        return Err(abort(w, g, "an input was opened whose open never returns (a FIFO nobody writes to)".into()));
    }
    if let Some(k) = g.srcs[which].open_fails {
        g.srcs[which].fault_delivered = true;
        g.any_rfault = true;
        let _ = g.push(Chan::Open, 0, 0, Res::Fail(k));
        return Err(k.to_io());
    }
    let _ = g.push(Chan::Open, 0, 0, Res::Done);
    drop(g);
    Ok(SimSource { w: w.clone(), which })
}

/// The listing of a simulated directory (hook H3): one seam event per entry asked for.
pub struct SimListing {
    w: Shared,
    which: usize,
    pos: usize,
}

/// Index of the simulated directory with this path, if the scenario has one.
pub fn find_dir(w: &Shared, path: &std::path::Path) -> Option<usize> {
    let g = lock(w);
    g.dirs.iter().position(|d| std::path::Path::new(&d.path) == path)
}

pub fn open_dir(w: &Shared, i: usize) -> io::Result<SimListing> {
    let mut g = lock(w);
    if g.aborted.is_some() {
        return Err(io::Error::new(io::ErrorKind::Other, "sim-aborted"));
    }
    g.cur_src = i as u8;
    g.dirs[i].opened += 1;
    if g.any_rfault {
        g.opens_after_any_rfault += 1;
    }
    if let Some(k) = g.dirs[i].open_fails {
        g.dirs[i].fault_delivered = true;
        g.any_rfault = true;
        if let Err(e) = g.push(Chan::ListOpen, 0, 0, Res::Fail(k)) {
            return Err(abort(w, g, e));
        }
        return Err(k.to_io());
    }
    if let Err(e) = g.push(Chan::ListOpen, 0, 0, Res::Done) {
        return Err(abort(w, g, e));
    }
    drop(g);
    Ok(SimListing { w: w.clone(), which: i, pos: 0 })
}

impl Iterator for SimListing {
    type Item = io::Result<std::path::PathBuf>;
    fn next(&mut self) -> Option<Self::Item> {
        let mut g = lock(&self.w);
        if g.aborted.is_some() {
            return Some(Err(io::Error::new(io::ErrorKind::Other, "sim-aborted")));
        }
        let i = self.which;
        g.cur_src = i as u8;
        let pos = self.pos;
        if let Some(f) = g.dirs[i].fault.clone() {
            let fire = if g.dirs[i].fault_delivered { f.sticky } else { f.at == pos };
            if fire {
                if g.dirs[i].fault_delivered {
                    g.dirs[i].post_fault_calls += 1;
                    if g.dirs[i].post_fault_calls > POST_FAULT_CALLS {
                        return Some(Err(abort(&self.w, g, "directory listing retried more than 64 times after a failure".into())));
                    }
                }
                g.dirs[i].fault_delivered = true;
                g.any_rfault = true;
                if let Err(e) = g.push(Chan::ListNext, pos, 1, Res::Fail(f.kind)) {
                    return Some(Err(abort(&self.w, g, e)));
                }
                return Some(Err(f.kind.to_io()));
            }
        }
        if pos >= g.dirs[i].entries.len() {
            if let Err(e) = g.push(Chan::ListNext, pos, 1, Res::Eof) {
                return Some(Err(abort(&self.w, g, e)));
            }
            return None;
        }
        let p = g.dirs[i].entries[pos].clone();
        g.dirs[i].yielded += 1;
        self.pos += 1;
        if let Err(e) = g.push(Chan::ListNext, pos, 1, Res::Done) {
            return Some(Err(abort(&self.w, g, e)));
        }
        Some(Ok(std::path::PathBuf::from(p)))
    }
}

pub fn sinks(w: &Shared) -> (SimSink, SimSink) {
    (
        SimSink {
            w: w.clone(),
            is_err: false,
        },
        SimSink {
            w: w.clone(),
            is_err: true,
        },
    )
}

/// Everything the oracles may look at after a run.
#[derive(Clone, Debug, Default)]
pub struct Obs {
    pub stdout: Vec<u8>,
    pub stderr: Vec<u8>,
    pub events: Vec<Event>,
    pub consumed: usize,
    pub device_pos: usize,
    pub opened: u32,
    pub rfault_delivered: bool,
    pub ok_reads_after_rfault: u32,
    pub post_rfault_calls: u32,
    pub out_fault_delivered: bool,
    pub out_fault_offset: usize,
    pub err_fault_delivered: bool,
    pub err_fault_offset: usize,
    pub intr_reads: u32,
    pub short_reads: u32,
    pub intr_writes: u32,
    pub short_writes: u32,
    pub eof_polls: u32,
    pub out_calls: u32,
    pub err_calls: u32,
    pub aborted: Option<String>,
    /// simulated file arguments (hook H2), in argument order
    pub files: Vec<SrcObs>,
    /// bytes delivered by all source devices
    pub delivered: usize,
    pub any_rfault: bool,
    pub ok_reads_after_any_rfault: u32,
    pub opens_after_any_rfault: u32,
    /// simulated directories (hook H3)
    pub dirs: Vec<DirObs>,
}

#[derive(Clone, Debug, Default)]
pub struct DirObs {
    pub opened: u32,
    pub yielded: u32,
    pub fault_delivered: bool,
    pub post_fault_calls: u32,
}

#[derive(Clone, Debug, Default)]
pub struct SrcObs {
    pub opened: u32,
    pub device_pos: usize,
    pub fault_delivered: bool,
    pub ok_reads_after_fault: u32,
    pub post_fault_calls: u32,
    pub intr_reads: u32,
    pub short_reads: u32,
    pub eof_polls: u32,
}

pub fn observe(w: &Shared) -> Obs {
    let mut g = lock(w);
    Obs {
        stdout: std::mem::take(&mut g.out.data),
        stderr: std::mem::take(&mut g.err.data),
        events: std::mem::take(&mut g.log),
        consumed: g.consumed,
        device_pos: g.srcs[0].pos,
        opened: g.opened,
        rfault_delivered: g.srcs[0].fault_delivered,
        ok_reads_after_rfault: g.srcs[0].ok_reads_after_fault,
        post_rfault_calls: g.srcs[0].post_fault_calls,
        out_fault_delivered: g.out.fault_delivered,
        out_fault_offset: g.out.fault_offset,
        err_fault_delivered: g.err.fault_delivered,
        err_fault_offset: g.err.fault_offset,
        intr_reads: g.srcs.iter().map(|s| s.intr_delivered).sum(),
        short_reads: g.srcs.iter().map(|s| s.short_reads).sum(),
        intr_writes: g.out.intr_delivered + g.err.intr_delivered,
        short_writes: g.out.short_writes + g.err.short_writes,
        eof_polls: g.srcs[0].eof_polls,
        out_calls: g.out.calls,
        err_calls: g.err.calls,
        aborted: g.aborted.clone(),
        files: g.srcs[1..]
            .iter()
            .map(|s| SrcObs {
                opened: s.opened,
                device_pos: s.pos,
                fault_delivered: s.fault_delivered,
                ok_reads_after_fault: s.ok_reads_after_fault,
                post_fault_calls: s.post_fault_calls,
                intr_reads: s.intr_delivered,
                short_reads: s.short_reads,
                eof_polls: s.eof_polls,
            })
            .collect(),
        delivered: g.delivered,
        any_rfault: g.any_rfault,
        ok_reads_after_any_rfault: g.ok_reads_after_any_rfault,
        opens_after_any_rfault: g.opens_after_any_rfault,
        dirs: g
            .dirs
            .iter()
            .map(|d| DirObs {
                opened: d.opened,
                yielded: d.yielded,
                fault_delivered: d.fault_delivered,
                post_fault_calls: d.post_fault_calls,
            })
            .collect(),
    }
}
