//! Property-aware minimisation of a failing case: candidates are generated generically from
//! the explicit case, and one is accepted iff the property's own check still reports the
//! same rule for it.

use crate::case::*;
use crate::common::{Ctx, Tier};
use crate::gen::may_touch;
use crate::props::{Property, ShrinkCaps};
use crate::world::Delivery;

fn normalise(pieces: &mut Vec<Piece>) {
    // keep tokens apart: two value-like pieces must not be glued into one token
    let mut i = 0;
    while i + 1 < pieces.len() {
        let a = &pieces[i];
        let b = &pieces[i + 1];
        let valueish = |k: Kind| matches!(k, Kind::Rec | Kind::Raw);
        if valueish(a.kind)
            && valueish(b.kind)
            && !a.bytes.0.is_empty()
            && !b.bytes.0.is_empty()
            && !may_touch(&a.bytes.0, &b.bytes.0)
        {
            pieces.insert(i + 1, Piece::gap(vec![b'\n']));
            i += 1;
        }
        i += 1;
    }
}

fn fails_same(
    prop: &dyn Property,
    cand: &Case,
    rule: &str,
    tier: Tier,
    tmp: &std::path::Path,
) -> Option<(Case, String)> {
    let mut ctx = Ctx::new(tier, tmp.to_path_buf());
    // the same entry point as the batch and the replay (history prelude, generic panic rule)
    let v = match crate::driver::full_check(prop, cand, &mut ctx) {
        Ok(Some(v)) => v,
        _ => return None,
    };
    if v.rule != rule {
        return None;
    }
    match v.reduced {
        Some(r) => Some((*r, v.detail)),
        None => Some((cand.clone(), v.detail)),
    }
}

pub fn shrink(
    prop: &dyn Property,
    start: Case,
    rule: &str,
    detail: String,
    tier: Tier,
    tmp: &std::path::Path,
) -> (Case, String, usize) {
    let caps: ShrinkCaps = prop.shrink_caps();
    let mut best = start;
    let mut best_detail = detail;
    let mut attempts = 0usize;
    const MAX_ATTEMPTS: usize = 600;
    let mut progress = true;
    while progress && attempts < MAX_ATTEMPTS {
        progress = false;
        let mut cands: Vec<Case> = Vec::new();
        // 1. delivery simplifications
        if best.rfault.is_none() && !best.delivery.whole && best.endless.is_none() {
            let mut c = best.clone();
            c.delivery = Delivery {
                whole: true,
                ..Delivery::default()
            };
            cands.push(c);
        }
        if !best.delivery.chunks.is_empty() {
            let mut c = best.clone();
            c.delivery.chunks.clear();
            cands.push(c);
        }
        if !best.delivery.eintr.is_empty() {
            let mut c = best.clone();
            c.delivery.eintr.clear();
            cands.push(c);
        }
        if best.delivery.bufcap.is_some() {
            let mut c = best.clone();
            c.delivery.bufcap = None;
            cands.push(c);
        }
        for which in 0..2 {
            let plan = if which == 0 { &best.out } else { &best.err };
            if !plan.short.is_empty() || !plan.eintr.is_empty() {
                let mut c = best.clone();
                let p = if which == 0 { &mut c.out } else { &mut c.err };
                p.short.clear();
                p.eintr.clear();
                cands.push(c);
            }
        }
        // 2. drop the second fault of a pair
        if best.rfault.is_some() && (best.out.fail.is_some() || best.out.zero_at.is_some()) {
            let mut c = best.clone();
            c.rfault = None;
            cands.push(c);
            let mut c = best.clone();
            c.out.fail = None;
            c.out.zero_at = None;
            cands.push(c);
        }
        // 3. drop pieces (halves, quarters, …, singles)
        if caps.drop_pieces && !best.pieces.is_empty() {
            let n = best.pieces.len();
            let mut size = n.div_ceil(2);
            loop {
                let mut start = 0;
                while start < n {
                    let end = (start + size).min(n);
                    let mut c = best.clone();
                    c.pieces.drain(start..end);
                    normalise(&mut c.pieces);
                    cands.push(c);
                    start = end;
                }
                if size == 1 {
                    break;
                }
                size = size.div_ceil(2);
                if cands.len() > 200 {
                    break;
                }
            }
        }
        // 4. drop options
        if caps.drop_opts {
            for i in 0..best.opts.len() {
                let mut c = best.clone();
                c.opts.remove(i);
                cands.push(c);
            }
        }
        // 5. simplify records
        if caps.simplify_records {
            for i in 0..best.pieces.len() {
                if best.pieces[i].kind == Kind::Rec && best.pieces[i].bytes.0.len() > 4 {
                    for lit in [&b"0"[..], b"\"\"", b"[]", b"{}", b"null"] {
                        let mut c = best.clone();
                        c.pieces[i].bytes = Bytes(lit.to_vec());
                        normalise(&mut c.pieces);
                        cands.push(c);
                    }
                }
            }
        }
        // 6. shrink raw pieces
        if caps.shrink_raw {
            for i in 0..best.pieces.len() {
                if best.pieces[i].kind == Kind::Raw {
                    let len = best.pieces[i].bytes.0.len();
                    let mut size = len / 2;
                    while size >= 1 {
                        let mut s = 0;
                        while s < len {
                            let e = (s + size).min(len);
                            let mut c = best.clone();
                            c.pieces[i].bytes.0.drain(s..e);
                            cands.push(c);
                            s = e;
                        }
                        if size == 1 || cands.len() > 400 {
                            break;
                        }
                        size /= 2;
                    }
                }
            }
        }
        // 7. move faults towards the start
        if let Some(f) = &best.rfault {
            for at in [0, f.at / 2, f.at.saturating_sub(1)] {
                if at < f.at {
                    let mut c = best.clone();
                    c.rfault.as_mut().unwrap().at = at;
                    cands.push(c);
                }
            }
        }
        if let Some(f) = &best.out.fail {
            for at in [0, f.at / 2, f.at.saturating_sub(1)] {
                if at < f.at {
                    let mut c = best.clone();
                    c.out.fail.as_mut().unwrap().at = at;
                    cands.push(c);
                }
            }
        }
        // 8. remove file cuts
        for i in 0..best.pieces.len() {
            if best.pieces[i].cut.is_some() {
                let mut c = best.clone();
                c.pieces[i].cut = None;
                cands.push(c);
            }
        }
        // 9. fewer hash seeds
        if best.hash_seeds.len() > 1 {
            for i in 0..best.hash_seeds.len() {
                let mut c = best.clone();
                c.hash_seeds = vec![best.hash_seeds[i]];
                cands.push(c);
            }
        }
        for c in cands {
            if attempts >= MAX_ATTEMPTS {
                break;
            }
            if c == best {
                continue;
            }
            attempts += 1;
            if let Some((reduced, d)) = fails_same(prop, &c, rule, tier, tmp) {
                best = reduced;
                best_detail = d;
                progress = true;
                break;
            }
        }
    }
    (best, best_detail, attempts)
}
