pub static SCRAPED: &[Func] = &[];
