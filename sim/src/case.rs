//! The explicit, serialisable description of one simulated scenario. A replay file is a
//! `Case`; `check(case)` is a pure function of it and of the code under test.

use crate::world::{Delivery, DirPlan, Endless, Fault, FilePlan, SinkPlan};
use base64::Engine;
use serde::{Deserialize, Deserializer, Serialize, Serializer};
use std::collections::BTreeMap;

/// Bytes that serialise as "s:<text>" when printable UTF-8 and as "b:<base64>" otherwise.
#[derive(Clone, Debug, PartialEq, Eq, Default)]
pub struct Bytes(pub Vec<u8>);

impl Serialize for Bytes {
    fn serialize<S: Serializer>(&self, s: S) -> Result<S::Ok, S::Error> {
        let printable = std::str::from_utf8(&self.0)
            .map(|t| t.chars().all(|c| !c.is_control() || c == '\n' || c == '\t' || c == '\r'))
            .unwrap_or(false);
        if printable {
            s.serialize_str(&format!("s:{}", std::str::from_utf8(&self.0).unwrap()))
        } else {
            s.serialize_str(&format!(
                "b:{}",
                base64::engine::general_purpose::STANDARD.encode(&self.0)
            ))
        }
    }
}

impl<'de> Deserialize<'de> for Bytes {
    fn deserialize<D: Deserializer<'de>>(d: D) -> Result<Self, D::Error> {
        let s = String::deserialize(d)?;
        if let Some(t) = s.strip_prefix("s:") {
            Ok(Bytes(t.as_bytes().to_vec()))
        } else if let Some(b) = s.strip_prefix("b:") {
            base64::engine::general_purpose::STANDARD
                .decode(b)
                .map(Bytes)
                .map_err(serde::de::Error::custom)
        } else {
            Err(serde::de::Error::custom("bytes must start with s: or b:"))
        }
    }
}

#[derive(Clone, Copy, Debug, PartialEq, Eq, Serialize, Deserialize)]
pub enum Kind {
    /// one complete top-level value
    Rec,
    /// whitespace between values
    Gap,
    /// a garbage region (whitespace delimited)
    Garbage,
    /// arbitrary bytes the harness knows nothing about
    Raw,
}

#[derive(Clone, Debug, PartialEq, Serialize, Deserialize)]
pub struct Piece {
    pub kind: Kind,
    pub bytes: Bytes,
    /// harness identity of a record (equal ids = redeliveries of the same abstract value)
    #[serde(default, skip_serializing_if = "Option::is_none")]
    pub id: Option<u32>,
    /// a file boundary at this offset inside the piece (0 = before it)
    #[serde(default, skip_serializing_if = "Option::is_none")]
    pub cut: Option<usize>,
    /// free-form tag (e.g. "scalar", "array", "dup")
    #[serde(default, skip_serializing_if = "String::is_empty")]
    pub tag: String,
}

impl Piece {
    pub fn rec(bytes: Vec<u8>, id: u32) -> Piece {
        Piece {
            kind: Kind::Rec,
            bytes: Bytes(bytes),
            id: Some(id),
            cut: None,
            tag: String::new(),
        }
    }
    pub fn gap(bytes: Vec<u8>) -> Piece {
        Piece {
            kind: Kind::Gap,
            bytes: Bytes(bytes),
            id: None,
            cut: None,
            tag: String::new(),
        }
    }
    pub fn garbage(bytes: Vec<u8>) -> Piece {
        Piece {
            kind: Kind::Garbage,
            bytes: Bytes(bytes),
            id: None,
            cut: None,
            tag: String::new(),
        }
    }
    pub fn raw(bytes: Vec<u8>) -> Piece {
        Piece {
            kind: Kind::Raw,
            bytes: Bytes(bytes),
            id: None,
            cut: None,
            tag: String::new(),
        }
    }
}

#[derive(Clone, Debug, PartialEq, Serialize, Deserialize)]
pub struct Case {
    pub prop: String,
    pub family: String,
    pub opts: Vec<Vec<String>>,
    pub pieces: Vec<Piece>,
    #[serde(default)]
    pub delivery: Delivery,
    #[serde(default, skip_serializing_if = "Option::is_none")]
    pub rfault: Option<Fault>,
    #[serde(default)]
    pub out: SinkPlan,
    #[serde(default)]
    pub err: SinkPlan,
    #[serde(default, skip_serializing_if = "Option::is_none")]
    pub endless: Option<Endless>,
    /// delivery plans of simulated file arguments (hook H2); file i holds the bytes between
    /// the (i-1)-th and the i-th cut of the stream
    #[serde(default, skip_serializing_if = "Vec::is_empty")]
    pub files: Vec<FilePlan>,
    /// listing plans of simulated directory arguments (hook H3); which files a directory
    /// holds follows from the `layout` parameter of the case
    #[serde(default, skip_serializing_if = "Vec::is_empty")]
    pub dirs: Vec<DirPlan>,
    #[serde(default)]
    pub hash_seeds: Vec<u64>,
    #[serde(default)]
    pub params: BTreeMap<String, i64>,
    #[serde(default)]
    pub strs: BTreeMap<String, String>,
}

impl Case {
    pub fn new(prop: &str, family: &str) -> Case {
        Case {
            prop: prop.into(),
            family: family.into(),
            opts: Vec::new(),
            pieces: Vec::new(),
            delivery: Delivery {
                whole: true,
                ..Delivery::default()
            },
            rfault: None,
            out: SinkPlan::default(),
            err: SinkPlan::default(),
            endless: None,
            files: Vec::new(),
            dirs: Vec::new(),
            hash_seeds: vec![0],
            params: BTreeMap::new(),
            strs: BTreeMap::new(),
        }
    }
    pub fn stream(&self) -> Vec<u8> {
        let mut v = Vec::new();
        for p in &self.pieces {
            v.extend_from_slice(&p.bytes.0);
        }
        v
    }
    /// stream without the garbage pieces
    pub fn clean_stream(&self) -> Vec<u8> {
        let mut v = Vec::new();
        for p in &self.pieces {
            if p.kind != Kind::Garbage {
                v.extend_from_slice(&p.bytes.0);
            }
        }
        v
    }
    pub fn argv(&self) -> Vec<String> {
        self.opts.iter().flatten().cloned().collect()
    }
    pub fn param(&self, k: &str) -> i64 {
        self.params.get(k).copied().unwrap_or(0)
    }
    pub fn set(&mut self, k: &str, v: i64) {
        self.params.insert(k.into(), v);
    }
    /// (start, end) byte span of every piece in the stream
    pub fn spans(&self) -> Vec<(usize, usize)> {
        let mut v = Vec::new();
        let mut o = 0;
        for p in &self.pieces {
            v.push((o, o + p.bytes.0.len()));
            o += p.bytes.0.len();
        }
        v
    }
    /// absolute offsets of file boundaries (from `cut` marks), sorted
    pub fn cuts(&self) -> Vec<usize> {
        let mut v = Vec::new();
        let mut o = 0;
        for p in &self.pieces {
            if let Some(c) = p.cut {
                v.push(o + c.min(p.bytes.0.len()));
            }
            o += p.bytes.0.len();
        }
        v.sort_unstable();
        v.dedup();
        v
    }
}

#[derive(Clone, Debug)]
pub struct Violation {
    pub rule: String,
    pub detail: String,
    /// a more specific case that fails by itself (e.g. one fault point of a sweep)
    pub reduced: Option<Box<Case>>,
}

#[derive(Clone, Debug, Default)]
pub struct Stats {
    /// executions of jawk
    pub runs: u64,
    pub events: u64,
    pub bytes_in: u64,
    pub bytes_out: u64,
    /// faults/events of each kind actually delivered
    pub faults: BTreeMap<String, u64>,
    /// rare-condition probes
    pub probes: BTreeMap<String, u64>,
    /// hash of the abstract trace of this scenario
    pub trace: u64,
    /// a fault/event of the property's class was delivered
    pub nontrivial: bool,
    pub invalid: bool,
}

impl Stats {
    pub fn fault(&mut self, k: &str, n: u64) {
        if n > 0 {
            *self.faults.entry(k.to_string()).or_insert(0) += n;
        }
    }
    pub fn probe(&mut self, k: &str) {
        *self.probes.entry(k.to_string()).or_insert(0) += 1;
    }
    pub fn probe_n(&mut self, k: &str, n: u64) {
        if n > 0 {
            *self.probes.entry(k.to_string()).or_insert(0) += n;
        }
    }
    pub fn merge(&mut self, o: &Stats) {
        self.runs += o.runs;
        self.events += o.events;
        self.bytes_in += o.bytes_in;
        self.bytes_out += o.bytes_out;
        for (k, v) in &o.faults {
            *self.faults.entry(k.clone()).or_insert(0) += v;
        }
        for (k, v) in &o.probes {
            *self.probes.entry(k.clone()).or_insert(0) += v;
        }
    }
}

pub struct Verdict {
    pub violation: Option<Violation>,
    pub stats: Stats,
}
