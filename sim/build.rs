// Scrape jawk's function table (names, aliases, arities, documented examples) from the
// working tree, so that workloads follow the code under test. Falls back to nothing (the
// crate then uses its committed snapshot) if the scrape finds too little.
use std::fs;
use std::path::{Path, PathBuf};

fn walk(dir: &Path, out: &mut Vec<PathBuf>) {
    let Ok(rd) = fs::read_dir(dir) else { return };
    let mut entries: Vec<_> = rd.filter_map(Result::ok).map(|e| e.path()).collect();
    entries.sort();
    for p in entries {
        if p.is_dir() {
            walk(&p, out);
        } else if p.extension().map_or(false, |e| e == "rs") {
            out.push(p);
        }
    }
}

/// Read a Rust string literal starting at or after `i` (skipping whitespace); returns (value, end).
fn read_lit(s: &[u8], mut i: usize) -> Option<(String, usize)> {
    while i < s.len() && (s[i] as char).is_whitespace() {
        i += 1;
    }
    if i >= s.len() {
        return None;
    }
    if s[i] == b'r' {
        let mut j = i + 1;
        let mut hashes = 0;
        while j < s.len() && s[j] == b'#' {
            hashes += 1;
            j += 1;
        }
        if j >= s.len() || s[j] != b'"' {
            return None;
        }
        j += 1;
        let start = j;
        loop {
            if j >= s.len() {
                return None;
            }
            if s[j] == b'"' {
                let mut k = 0;
                while k < hashes && j + 1 + k < s.len() && s[j + 1 + k] == b'#' {
                    k += 1;
                }
                if k == hashes {
                    let v = String::from_utf8_lossy(&s[start..j]).to_string();
                    return Some((v, j + 1 + hashes));
                }
            }
            j += 1;
        }
    }
    if s[i] != b'"' {
        return None;
    }
    let mut j = i + 1;
    let mut v: Vec<u8> = Vec::new();
    while j < s.len() {
        match s[j] {
            b'"' => return Some((String::from_utf8_lossy(&v).to_string(), j + 1)),
            b'\\' => {
                j += 1;
                if j >= s.len() {
                    return None;
                }
                match s[j] {
                    b'n' => v.push(b'\n'),
                    b't' => v.push(b'\t'),
                    b'r' => v.push(b'\r'),
                    b'0' => v.push(0),
                    b'\\' => v.push(b'\\'),
                    b'"' => v.push(b'"'),
                    b'\'' => v.push(b'\''),
                    b'\n' => {
                        // line continuation: skip following whitespace
                        while j + 1 < s.len() && (s[j + 1] as char).is_whitespace() {
                            j += 1;
                        }
                    }
                    b'u' => {
                        // \u{XXXX}
                        if j + 1 < s.len() && s[j + 1] == b'{' {
                            let mut k = j + 2;
                            let mut code = 0u32;
                            while k < s.len() && s[k] != b'}' {
                                code = code * 16 + (s[k] as char).to_digit(16).unwrap_or(0);
                                k += 1;
                            }
                            if let Some(c) = char::from_u32(code) {
                                let mut b = [0u8; 4];
                                v.extend_from_slice(c.encode_utf8(&mut b).as_bytes());
                            }
                            j = k;
                        }
                    }
                    other => {
                        v.push(b'\\');
                        v.push(other);
                    }
                }
                j += 1;
            }
            c => {
                v.push(c);
                j += 1;
            }
        }
    }
    None
}

fn find(s: &[u8], from: usize, pat: &[u8]) -> Option<usize> {
    if from >= s.len() {
        return None;
    }
    s[from..]
        .windows(pat.len())
        .position(|w| w == pat)
        .map(|p| p + from)
}

fn lit(s: &str) -> String {
    format!("{s:?}")
}

fn main() {
    let root = std::env::var("JAWK_SRC_FUNCTIONS").unwrap_or_else(|_| "/repo/src/functions".into());
    println!("cargo:rerun-if-changed={root}");
    println!("cargo:rerun-if-env-changed=JAWK_SRC_FUNCTIONS");
    let mut files = Vec::new();
    walk(Path::new(&root), &mut files);
    let mut out = String::new();
    out.push_str("pub static SCRAPED: &[Func] = &[\n");
    let mut count = 0;
    for f in files {
        let Ok(text) = fs::read(&f) else { continue };
        let s = &text[..];
        let mut pos = 0;
        while let Some(p) = find(s, pos, b"FunctionDefinitions::new(") {
            let after = p + b"FunctionDefinitions::new(".len();
            let next_def = find(s, after, b"FunctionDefinitions::new(").unwrap_or(s.len());
            pos = after;
            let Some((name, e)) = read_lit(s, after) else { continue };
            // arities: `, min, max,`
            let rest = String::from_utf8_lossy(&s[e..(e + 80).min(s.len())]).to_string();
            let parts: Vec<&str> = rest.split(',').map(str::trim).collect();
            if parts.len() < 3 {
                continue;
            }
            let Ok(min) = parts[1].parse::<usize>() else { continue };
            let max: usize = if parts[2].starts_with("usize::MAX") {
                usize::MAX
            } else if let Ok(m) = parts[2].parse::<usize>() {
                m
            } else {
                continue;
            };
            let body = &s[after..next_def];
            let mut aliases = Vec::new();
            let mut q = 0;
            while let Some(a) = find(body, q, b".add_alias(") {
                q = a + 11;
                if let Some((al, _)) = read_lit(body, q) {
                    aliases.push(al);
                }
            }
            // examples
            let mut examples: Vec<(Option<String>, Vec<String>)> = Vec::new();
            let mut q = 0;
            while let Some(x) = find(body, q, b"Example::new()") {
                let start = x + 14;
                let end = find(body, start, b"Example::new()").unwrap_or(body.len());
                q = start;
                let chunk = &body[start..end];
                let mut input = None;
                let mut args = Vec::new();
                let mut r = 0;
                loop {
                    let ia = find(chunk, r, b".add_argument(");
                    let ii = find(chunk, r, b".input(");
                    match (ia, ii) {
                        (None, None) => break,
                        (Some(a), i2) if i2.map_or(true, |i2| a < i2) => {
                            r = a + 14;
                            if let Some((v, _)) = read_lit(chunk, r) {
                                args.push(v);
                            }
                        }
                        (_, Some(i2)) => {
                            r = i2 + 7;
                            if let Some((v, _)) = read_lit(chunk, r) {
                                input = Some(v);
                            }
                        }
                        _ => break,
                    }
                }
                examples.push((input, args));
            }
            count += 1;
            out.push_str(&format!(
                "  Func {{ name: {}, aliases: &[{}], min: {}, max: {}, examples: &[{}] }},\n",
                lit(&name),
                aliases.iter().map(|a| lit(a)).collect::<Vec<_>>().join(", "),
                min,
                if max == usize::MAX {
                    "usize::MAX".to_string()
                } else {
                    max.to_string()
                },
                examples
                    .iter()
                    .map(|(i, a)| format!(
                        "Ex {{ input: {}, args: &[{}] }}",
                        match i {
                            Some(i) => format!("Some({})", lit(i)),
                            None => "None".into(),
                        },
                        a.iter().map(|a| lit(a)).collect::<Vec<_>>().join(", ")
                    ))
                    .collect::<Vec<_>>()
                    .join(", ")
            ));
        }
    }
    out.push_str("];\n");
    out.push_str(&format!("pub const SCRAPED_COUNT: usize = {count};\n"));
    let dir = std::env::var("OUT_DIR").unwrap();
    fs::write(Path::new(&dir).join("scraped.rs"), out).unwrap();
}
