/*
 * iofault.so - LD_PRELOAD shim that scripts the results of read/write/writev on fds 0, 1, 2
 * from a plan file, so that the real jawk executable (real main, real std stdio) runs
 * inside a world whose I/O faults are decided by the simulator.
 *
 * Plan file (path in IOFAULT_PLAN), one directive per line:
 *   limits <fd> n1,n2,...        cyclic maximum transfer sizes (short reads / short writes)
 *   eintr  <fd> off:count ...    `count` EINTR results before the byte at `off` moves
 *   fail   <fd> <off> <errno-name> <sticky|recovers>
 *   log    <path>                append one line per intercepted call
 *   watch  <fd>                  log the calls on this descriptor without changing them
 *   file   <slot> <path>         slot in 3..10: reads on the descriptor that open()/openat()
 *                                returns for exactly this path follow the plan of <slot>
 *                                (limits/eintr/fail lines may name a slot instead of an fd)
 *   dirfail <path> <k> <errno-name>
 *                                the listing of exactly this directory fails: k = -1, opendir()
 *                                fails; k >= 0, the readdir64() call that would have returned
 *                                the k-th entry (".", ".." counted, k = number of entries: the
 *                                call that would have reported the end) fails, and so does
 *                                every later one on that listing. Logged as fd 20+i, op D / d.
 * Offsets are byte offsets on that fd. A transfer never straddles a planned offset.
 * After a sticky failure every call on that fd fails; more than 64 such calls end the
 * process with status 97 (liveness bound, reported by the harness).
 */
#define _GNU_SOURCE
#include <dirent.h>
#include <dlfcn.h>
#include <errno.h>
#include <fcntl.h>
#include <stdio.h>
#include <stdlib.h>
#include <string.h>
#include <sys/syscall.h>
#include <sys/uio.h>
#include <unistd.h>

#define MAXN 32

struct plan {
    int active;
    size_t limits[MAXN];
    int nlimits;
    int idx;
    size_t eintr_off[MAXN];
    int eintr_cnt[MAXN];
    int neintr;
    int has_fail;
    size_t fail_at;
    int fail_errno;
    int sticky;
    int delivered;
    int post;
    size_t pos;
};

#define NSLOT 11
#define MAXFD 1024
static struct plan P[NSLOT];
static char *slot_path[NSLOT];
static unsigned char fd_slot[MAXFD]; /* fd -> slot for file arguments (0 = none) */
#define NDIR 4
static char *dir_path[NDIR];
static long dir_at[NDIR];
static int dir_errno[NDIR];
static int ndirs;
static DIR *dir_handle[NDIR];
static long dir_count[NDIR];
static int dir_delivered[NDIR];
static int dir_post[NDIR];
static int logfd = -1;
static unsigned long seq;
static int initialised;

static ssize_t raw_write(int fd, const void *b, size_t n) { return syscall(SYS_write, fd, b, n); }
static ssize_t raw_read(int fd, void *b, size_t n) { return syscall(SYS_read, fd, b, n); }

static int errno_of(const char *s) {
    if (!strcmp(s, "EIO")) return EIO;
    if (!strcmp(s, "ENOSPC")) return ENOSPC;
    if (!strcmp(s, "EPIPE")) return EPIPE;
    if (!strcmp(s, "EAGAIN")) return EAGAIN;
    if (!strcmp(s, "EBADF")) return EBADF;
    if (!strcmp(s, "EACCES")) return EACCES;
    if (!strcmp(s, "ECONNRESET")) return ECONNRESET;
    if (!strcmp(s, "ETIMEDOUT")) return ETIMEDOUT;
    return EIO;
}

static void logline(int fd, char op, size_t asked, size_t at, long res, int err) {
    if (logfd < 0) return;
    char buf[128];
    int n = snprintf(buf, sizeof buf, "%lu %d %c %zu %zu %ld %d\n", ++seq, fd, op, asked, at, res, err);
    if (n > 0) raw_write(logfd, buf, (size_t)n);
}

static void init(void) {
    if (initialised) return;
    initialised = 1;
    const char *path = getenv("IOFAULT_PLAN");
    if (!path) return;
    FILE *f = fopen(path, "r");
    if (!f) return;
    char line[1024];
    while (fgets(line, sizeof line, f)) {
        char kw[32];
        int fd;
        int used = 0;
        if (sscanf(line, "%31s %n", kw, &used) < 1) continue;
        char *rest = line + used;
        if (!strcmp(kw, "log")) {
            char p[900];
            if (sscanf(rest, "%899s", p) == 1) logfd = open(p, O_WRONLY | O_CREAT | O_APPEND | O_CLOEXEC, 0600);
            continue;
        }
        if (!strcmp(kw, "dirfail")) {
            /* the path may contain blanks: it ends at the last two fields */
            char *nl = strchr(rest, '\n');
            if (nl) *nl = 0;
            char *e2 = strrchr(rest, ' ');
            if (!e2) continue;
            *e2 = 0;
            char *e1 = strrchr(rest, ' ');
            if (!e1) continue;
            *e1 = 0;
            if (ndirs < NDIR) {
                dir_path[ndirs] = strdup(rest);
                dir_at[ndirs] = strtol(e1 + 1, NULL, 10);
                dir_errno[ndirs] = errno_of(e2 + 1);
                ndirs++;
            }
            continue;
        }
        int u2 = 0;
        if (sscanf(rest, "%d %n", &fd, &u2) < 1 || fd < 0 || fd >= NSLOT) continue;
        rest += u2;
        if (!strcmp(kw, "watch")) {
            P[fd].active = 1;
            continue;
        }
        if (!strcmp(kw, "file")) {
            char p[900];
            if (fd >= 3 && sscanf(rest, "%899s", p) == 1) slot_path[fd] = strdup(p);
            continue;
        }
        struct plan *p = &P[fd];
        p->active = 1;
        if (!strcmp(kw, "limits")) {
            char *tok = strtok(rest, ", \n");
            while (tok && p->nlimits < MAXN) {
                size_t v = (size_t)strtoul(tok, NULL, 10);
                p->limits[p->nlimits++] = v ? v : 1;
                tok = strtok(NULL, ", \n");
            }
        } else if (!strcmp(kw, "eintr")) {
            char *tok = strtok(rest, " \n");
            while (tok && p->neintr < MAXN) {
                size_t off;
                int cnt;
                if (sscanf(tok, "%zu:%d", &off, &cnt) == 2) {
                    p->eintr_off[p->neintr] = off;
                    p->eintr_cnt[p->neintr] = cnt;
                    p->neintr++;
                }
                tok = strtok(NULL, " \n");
            }
        } else if (!strcmp(kw, "fail")) {
            size_t off;
            char en[32], mode[32];
            if (sscanf(rest, "%zu %31s %31s", &off, en, mode) == 3) {
                p->has_fail = 1;
                p->fail_at = off;
                p->fail_errno = errno_of(en);
                p->sticky = !strcmp(mode, "sticky");
            }
        }
    }
    fclose(f);
}

/* returns 1 and sets errno if the call must fail now; otherwise 0 and *n is the allowed size */
static int decide(int fd, char op, size_t asked, size_t *n) {
    struct plan *p = &P[fd];
    if (p->delivered && p->sticky) {
        if (++p->post > 64) {
            logline(fd, op, asked, p->pos, -2, 0);
            _exit(97);
        }
        logline(fd, op, asked, p->pos, -1, p->fail_errno);
        errno = p->fail_errno;
        return 1;
    }
    for (int i = 0; i < p->neintr; i++) {
        if (p->eintr_off[i] == p->pos && p->eintr_cnt[i] > 0) {
            p->eintr_cnt[i]--;
            logline(fd, op, asked, p->pos, -1, EINTR);
            errno = EINTR;
            return 1;
        }
    }
    if (p->has_fail && !p->delivered && p->fail_at == p->pos) {
        p->delivered = 1;
        logline(fd, op, asked, p->pos, -1, p->fail_errno);
        errno = p->fail_errno;
        return 1;
    }
    size_t m = asked;
    if (p->nlimits > 0) {
        size_t l = p->limits[p->idx % p->nlimits];
        p->idx++;
        if (l < m) m = l;
    }
    size_t stop = (size_t)-1;
    if (p->has_fail && !p->delivered && p->fail_at > p->pos) stop = p->fail_at;
    for (int i = 0; i < p->neintr; i++)
        if (p->eintr_off[i] > p->pos && p->eintr_cnt[i] > 0 && p->eintr_off[i] < stop) stop = p->eintr_off[i];
    if (stop != (size_t)-1 && stop - p->pos < m) m = stop - p->pos;
    *n = m;
    return 0;
}

static int slot_of(int fd) {
    if (fd == 0) return 0;
    if (fd > 2 && fd < MAXFD && fd_slot[fd]) return fd_slot[fd];
    return -1;
}

ssize_t read(int fd, void *buf, size_t count) {
    init();
    int slot = slot_of(fd);
    if (slot < 0 || !P[slot].active || count == 0) return raw_read(fd, buf, count);
    size_t n;
    if (decide(slot, 'r', count, &n)) return -1;
    ssize_t r = raw_read(fd, buf, n);
    logline(slot, 'r', count, P[slot].pos, (long)r, r < 0 ? errno : 0);
    if (r > 0) P[slot].pos += (size_t)r;
    return r;
}

static void note_open(const char *path, int fd) {
    if (fd < 3 || fd >= MAXFD || !path) return;
    fd_slot[fd] = 0;
    for (int s = 3; s < NSLOT; s++)
        if (slot_path[s] && !strcmp(slot_path[s], path)) {
            fd_slot[fd] = (unsigned char)s;
            logline(s, 'o', 0, 0, fd, 0);
            return;
        }
}

#include <stdarg.h>
int open(const char *path, int flags, ...) {
    init();
    mode_t mode = 0;
    if (flags & (O_CREAT | O_TMPFILE)) { va_list ap; va_start(ap, flags); mode = va_arg(ap, mode_t); va_end(ap); }
    int fd = (int)syscall(SYS_openat, AT_FDCWD, path, flags, mode);
    if (fd >= 0) note_open(path, fd);
    return fd;
}
int open64(const char *path, int flags, ...) {
    init();
    mode_t mode = 0;
    if (flags & (O_CREAT | O_TMPFILE)) { va_list ap; va_start(ap, flags); mode = va_arg(ap, mode_t); va_end(ap); }
    int fd = (int)syscall(SYS_openat, AT_FDCWD, path, flags | O_LARGEFILE, mode);
    if (fd >= 0) note_open(path, fd);
    return fd;
}
int openat(int dirfd, const char *path, int flags, ...) {
    init();
    mode_t mode = 0;
    if (flags & (O_CREAT | O_TMPFILE)) { va_list ap; va_start(ap, flags); mode = va_arg(ap, mode_t); va_end(ap); }
    int fd = (int)syscall(SYS_openat, dirfd, path, flags, mode);
    if (fd >= 0 && (dirfd == AT_FDCWD || (path && path[0] == '/'))) note_open(path, fd);
    return fd;
}
int openat64(int dirfd, const char *path, int flags, ...) {
    init();
    mode_t mode = 0;
    if (flags & (O_CREAT | O_TMPFILE)) { va_list ap; va_start(ap, flags); mode = va_arg(ap, mode_t); va_end(ap); }
    int fd = (int)syscall(SYS_openat, dirfd, path, flags | O_LARGEFILE, mode);
    if (fd >= 0 && (dirfd == AT_FDCWD || (path && path[0] == '/'))) note_open(path, fd);
    return fd;
}
int close(int fd) {
    if (fd >= 3 && fd < MAXFD) fd_slot[fd] = 0;
    return (int)syscall(SYS_close, fd);
}

static ssize_t do_write(int fd, const void *buf, size_t count) {
    size_t n;
    if (decide(fd, 'w', count, &n)) return -1;
    ssize_t r = raw_write(fd, buf, n);
    logline(fd, 'w', count, P[fd].pos, (long)r, r < 0 ? errno : 0);
    if (r > 0) P[fd].pos += (size_t)r;
    return r;
}

ssize_t write(int fd, const void *buf, size_t count) {
    init();
    if (fd < 1 || fd > 2 || !P[fd].active || count == 0) return raw_write(fd, buf, count);
    return do_write(fd, buf, count);
}

ssize_t writev(int fd, const struct iovec *iov, int iovcnt) {
    init();
    if (fd < 1 || fd > 2 || !P[fd].active) return syscall(SYS_writev, fd, iov, iovcnt);
    /* a short write of the first non-empty buffer is a legal result of writev */
    for (int i = 0; i < iovcnt; i++)
        if (iov[i].iov_len > 0) return do_write(fd, iov[i].iov_base, iov[i].iov_len);
    return 0;
}

/* directory listings (std::fs::read_dir = opendir + readdir64 + closedir) */
DIR *opendir(const char *name) {
    init();
    static DIR *(*real)(const char *);
    if (!real) real = (DIR * (*)(const char *)) dlsym(RTLD_NEXT, "opendir");
    for (int i = 0; i < ndirs; i++)
        if (name && !strcmp(dir_path[i], name)) {
            if (dir_at[i] < 0) {
                dir_delivered[i] = 1;
                logline(20 + i, 'D', 0, 0, -1, dir_errno[i]);
                errno = dir_errno[i];
                return NULL;
            }
            DIR *d = real(name);
            if (d) {
                dir_handle[i] = d;
                dir_count[i] = 0;
                logline(20 + i, 'D', 0, 0, 0, 0);
            }
            return d;
        }
    return real(name);
}

struct dirent64 *readdir64(DIR *d) {
    init();
    static struct dirent64 *(*real)(DIR *);
    if (!real) real = (struct dirent64 * (*)(DIR *)) dlsym(RTLD_NEXT, "readdir64");
    for (int i = 0; i < ndirs; i++)
        if (d && dir_handle[i] == d) {
            if (dir_delivered[i] || dir_count[i] == dir_at[i]) {
                if (dir_delivered[i] && ++dir_post[i] > 64) {
                    logline(20 + i, 'd', 1, (size_t)dir_count[i], -2, 0);
                    _exit(97);
                }
                dir_delivered[i] = 1;
                logline(20 + i, 'd', 1, (size_t)dir_count[i], -1, dir_errno[i]);
                errno = dir_errno[i];
                return NULL;
            }
            struct dirent64 *e = real(d);
            logline(20 + i, 'd', 1, (size_t)dir_count[i], e ? 1 : 0, 0);
            if (e) dir_count[i]++;
            return e;
        }
    return real(d);
}

int closedir(DIR *d) {
    static int (*real)(DIR *);
    if (!real) real = (int (*)(DIR *)) dlsym(RTLD_NEXT, "closedir");
    for (int i = 0; i < ndirs; i++)
        if (d && dir_handle[i] == d) dir_handle[i] = NULL;
    return real(d);
}
