#!/bin/sh
# verify_seeded.sh <worktree> <dir-with-patch.diff-and-demo>
# Confirms for a seeded change: (1) the existing test suite passes with it, (2) the
# demonstration fails with it, (3) the demonstration passes without it.
# Leaves the worktree clean. Exit 0 iff all three hold.
WT=$1; D=$2
export CARGO_NET_OFFLINE=true
cd "$WT" || exit 2
git checkout -q -- . && git clean -fdq -e target
git apply "$D/patch.diff" || { echo "PATCH-DOES-NOT-APPLY"; exit 2; }
suite=$(cargo test --workspace --no-fail-fast --offline 2>&1 | grep -E "^test result" | awk '{p+=$4; f+=$6} END {print p" passed "f" failed"}')
echo "suite with patch: $suite"
rundemo() {
    if [ -f "$D/demo.rs" ]; then
        cp "$D/demo.rs" tests/zz_demo.rs
        cargo test --offline --test zz_demo >/tmp/demo.$$.log 2>&1; rc=$?
        rm -f tests/zz_demo.rs
    else
        WT="$WT" bash "$D/demo.sh" "$WT" >/tmp/demo.$$.log 2>&1; rc=$?
    fi
    return $rc
}
rundemo; with=$?
echo "demo with patch: rc=$with"
git checkout -q -- . && git clean -fdq -e target
rundemo; without=$?
echo "demo without patch: rc=$without"
rm -f /tmp/demo.$$.log
git checkout -q -- . && git clean -fdq -e target
case "$suite" in "158 passed 0 failed") ok=1 ;; *) ok=0 ;; esac
if [ $ok = 1 ] && [ $with != 0 ] && [ $without = 0 ]; then echo "CONFIRMED"; exit 0; fi
echo "NOT-CONFIRMED"; exit 1
