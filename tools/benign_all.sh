#!/bin/sh
# benign_all.sh: apply every behaviour-preserving refactor kept under mutants/ to /repo in
# turn and run all nine quick checks against it. Expected: every line says SILENT.
cd /verif || exit 2
for p in mutants/benign-*.patch mutants/benign-agents/*/patch.diff; do
    out=$(./tools/try_seeded.sh "$p" 2>&1)
    if echo "$out" | grep -aq "VIOLATION\|HARNESS\|PATCH-DOES-NOT-APPLY\|rc=[12]"; then
        echo "$p ALARM $(echo "$out" | grep -a "VIOLATION\|HARNESS\|PATCH\|rc=[12]" | head -3 | cut -c1-300 | tr '\n' ' ')"
    else
        echo "$p SILENT"
    fi
done
