#!/usr/bin/env python3
"""keep_seeded.py <ID> <k> <needs> <caught_by> : copy a confirmed seeded change from
/tmp/out-<ID>/m<k> into /verif/seeded/<ID>-m<k>/ with a meta.json."""
import json, os, shutil, sys
pid, k, needs, caught = sys.argv[1], sys.argv[2], sys.argv[3], sys.argv[4]
rnd = os.environ.get("ROUND", "1")
src = f"/tmp/out-{pid}/m{k}" if rnd == "1" else f"/tmp/o{rnd}-{pid}/m{k}"
dst = f"/verif/seeded/{pid}-m{k}" if rnd == "1" else f"/verif/seeded/{pid}-r{rnd}m{k}"
os.makedirs(dst, exist_ok=True)
patch = "patch.h2.diff" if os.path.exists(f"{src}/patch.h2.diff") else "patch.diff"
shutil.copy(f"{src}/{patch}", f"{dst}/patch.diff")
if patch != "patch.diff":
    shutil.copy(f"{src}/patch.diff", f"{dst}/patch.orig.diff")
demos = []
for f in sorted(os.listdir(src)):
    if f.startswith("demo"):
        shutil.copy(f"{src}/{f}", f"{dst}/{f}")
        demos.append(f)
if os.path.exists(f"{src}/notes.md"):
    shutil.copy(f"{src}/notes.md", f"{dst}/notes.md")
meta = {
    "property": pid,
    "source": os.environ.get("SOURCE", "independent sub-agent given only the property's statement and anchors and a scratch worktree of /repo; the round's theme is in DESIGN.md section 8"),
    "breaks": open(f"{src}/notes.md").read().split("\n\n")[0][:600] if os.path.exists(f"{src}/notes.md") else "",
    "needs_to_manifest": needs,
    "demonstration": demos,
    "confirmed": "tools/verify_seeded.sh in the scratch worktree: existing suite 158/158 passes with the patch; demonstration fails with the patch and passes without it",
    "ran": f"tools/try_seeded.sh {dst}/patch.diff {pid}  (git -C /repo apply; ./check {pid} quick; git -C /repo checkout)",
    "caught_by": caught,
    "check_with": os.environ.get("CHECK_WITH", pid).split(),
}
json.dump(meta, open(f"{dst}/meta.json", "w"), indent=1)
print("kept", dst)
