#!/bin/sh
for id in C05 C06 C10 C11 C14 C16 C17 C18 C20; do echo "$id: $(./check $id thorough 2>&1 | grep -a 'VIOLATION\|HARNESS\|done:\|detail' | cut -c1-400 | tr '\n' ' ')"; done
