import json,sys
claimed = {
 "C05": ("exploration","Seeded exploration of hostile byte streams arriving through the stdin seam (corruption operators incl. truncation = producer crash, random alphabet strings, deep nesting, invalid UTF-8) under seeded delivery plans, and of an ill-typed expression corpus derived from the function table scraped from the working tree; decides 'no panic, no abort, returns within a budget counted in seam events'. The batch runs in a supervised child process so that an abort is reported and replayable. The stream half is the part simulation decides; the expression half reaches only as far as the corpus (stated in evidence). Sampling, not proof.","4 C05","deterministic simulation: seeded stream corruption/truncation + ill-typed expression corpus through the stdin seam; panic/abort/liveness oracle"),
 "C06": ("exploration","Seeded exploration of garbage regions injected into the gaps of generated streams under the four --on-error policies and seeded delivery plans; every claim is decided against executions of the same build on the garbage-free stream and on clean prefixes, with region reachability and sink routing read off the seam event history.","4 C06","deterministic simulation: garbage injection between records vs reference runs on the clean stream; sink routing from the seam event log"),
 "C10": ("exploration","Seeded exploration of an at-least-once upstream: harness-injected redeliveries in fresh value-preserving spellings, several hasher seeds via hook H1; decided against the run without --unique on the sub-stream of first deliveries and against `=` on harness-known pairs. Weak fit for the technique (record-level events), stated in DESIGN.md.","4 C10","deterministic simulation: harness-injected redelivery with re-encoding + seeded hasher vs reference run on first deliveries"),
 "C11": ("exploration","Seeded exploration of record-level transport events (consumer restart at a record boundary, redelivery, reordering, re-spelling) over stateless pipelines; decided against per-record solo runs and the uninterrupted run of the same build, byte for byte. Weak fit for the technique, stated in DESIGN.md.","4 C11","deterministic simulation: restart/redelivery/reordering of records vs per-record reference runs"),
 "C14": ("exploration","Seeded exploration with an endless stdin produced on demand by the stub (finite generated prefix + unbounded tail of distinct records), raw or through a harness BufReader with chunking/EINTR; the byte offset at which the finite reference run wrote its last row bounds what the endless run may consume (read off jawk's side of the seam), and the simulator aborts a run that keeps reading.","4 C14","deterministic simulation: endless input source with byte budget; consumption at the stdin seam vs finite reference run"),
 "C16": ("fault_enumeration","Enumerates, per sampled case, every byte offset of the input as a failing read and every byte offset of the fault-free stdout/stderr as a failing write (sticky and recovering devices, after seeded EINTR/short-transfer garnish, plus Ok(0) writes and double faults), and compares each faulted run of the real jawk::go with the fault-free run of the same code. Offsets are enumerated, cases are sampled: a clean run is evidence over the sampled cases, not a proof.","4 C16","deterministic simulation: byte-offset fault enumeration at the stdin/stdout/stderr seams vs fault-free reference run"),
 "C17": ("exploration","Seeded exploration of delivery schedules of the same bytes (whole slice, raw 1-byte reads with EINTR, BufReader of seeded capacity over seeded chunk limits, one real file, partitions into 1..4 real files at gaps and inside values) compared byte for byte between executions of the same build, and of the seven input-context selectors against the byte offsets the harness knows for the records it generated.","4 C17","deterministic simulation: delivery-schedule and file-partition equivalence; input-context selectors vs harness-known byte offsets"),
 "C18": ("exploration","Seeded exploration of single corruptions that are invalid by construction applied to valid generated configurations, in friendly and hostile worlds; decided on the recorded seam history, which must be empty when the configuration error is returned.","4 C18","deterministic simulation: effect order at the seams (empty event history) under config corruption, friendly and hostile stubs"),
}
na = {
 "C01":"pure function of the input bytes (value-for-value fidelity of parse+print); no delivery, fault, schedule or history in the statement; deciding it needs an independent JSON reader as oracle, which is differential/property testing, not simulation. Chunking of the same bytes is covered by C17.",
 "C02":"pure function of (value, style options): well-formedness and fixpoint of printed text; no environmental event to simulate.",
 "C03":"pure function of (options, value sequence): needs a reference pipeline interpreter as oracle; nothing in it depends on delivery, faults or scheduling.",
 "C04":"pure expression semantics against documentation: needs a reference evaluator; no fault or schedule.",
 "C07":"the total order, stability and multi-key rules are pure; no fault, delivery or schedule in the statement.",
 "C08":"row arithmetic (rows S..S+T-1 of a pure result); the early-stop side that does involve the input seam is decided under C14 (C14.rows).",
 "C09":"one complete collection at end of input is a pure function of the row sequence; a complete() per file would surface in C17.files-concat.",
 "C12":"lexical scoping of bindings: pure, needs substitution semantics as oracle.",
 "C13":"four of five clauses are about program text; the cache-size clause has no fault or schedule in it (its history-dependent failure mode is exercised as a per-scenario knob of C11).",
 "C15":"csv/text field structure and quoting: pure formatting, needs an RFC 4180 reader as oracle.",
 "C19":"64-bit integer and big-decimal exactness: pure arithmetic.",
}
pending = sys.argv[1:]
m = {
 "version":1,
 "setup_cmd":"./check setup",
 "hooks":{"guard":"yift_jawk_verif","enable":"RUSTFLAGS=\"--cfg yift_jawk_verif\" when building /verif/sim (which depends on /repo by path); the shipped jawk executable used by C20 is built with the guard off","baseline_off_cmd":"cd /repo && cargo test --workspace --no-fail-fast --offline","source_commits":["8f6efe6"],"add_only":False},
 "engines":[{"name":"jawk-sim","path":"sim/","serves_properties":sorted(claimed.keys()),"kind_free_text":"hand-written deterministic simulator: seeded PRNG (SplitMix64/xoshiro256**) decides every case, delivery schedule and fault; stub Read/Write objects at jawk::go's stdin/stdout/stderr seams log a sequence-numbered event history; property-aware shrinker; explicit-case replay files"}],
 "checks":[],
 "notes":"See DESIGN.md. Exit 0 held / 1 VIOLATION / 2 harness error. VERIF_SEED, VERIF_TIER, VERIF_WORKERS, VERIF_CASES, VERIF_SECONDS are honoured.",
 "not_applicable":[{"property_id":k,"reason":v} for k,v in sorted(na.items())]
}
for k,(lvl,text,ref,tech) in sorted(claimed.items()):
    m["checks"].append({"property_id":k,"quick_cmd":f"./check {k} quick","thorough_cmd":f"./check {k} thorough","evidence_file":f"evidence/{k}.json","replay_cmd_template":"./check replay {path}","engine":"jawk-sim","level_claimed":{"category":lvl,"text":text,"design_ref":ref},"level_note":"Trusted base: the simulator (sim/src/world.rs stubs, the oracle code in sim/src/props), rustc/std; the reference is the fault-free run of the same jawk build, so data semantics are not trusted or modelled. In-process checks see jawk::go only; main() is covered by C20.","technique":tech})
for p in pending:
    m["not_applicable"].append({"property_id":p,"reason":"check under construction in this session (will be claimed: see DESIGN.md section 4); not yet decided by the committed machinery"})
m["not_applicable"].sort(key=lambda x:x["property_id"])
json.dump(m,open('/verif/MANIFEST.json','w'),indent=1)
