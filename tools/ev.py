#!/usr/bin/env python3
import json,sys
for f in sys.argv[1:]:
    e=json.load(open(f)); c=e['coverage']
    print(f, e['tier'], 'wall',e['wall_s'],'viol',e.get('violations'))
    for k in ('evaluations','distinct_nontrivial','scenarios_generated','scenarios_nontrivial','scenarios_skipped_invalid','scenario_families','faults_delivered','probes','determinism_rechecks'):
        if k in c: print('  ',k,':',c[k])
