#!/bin/sh
# try_seeded.sh <patch.diff> <ID>...   apply a seeded change to /repo, run the quick checks
# of the given properties (default: all claimed), and undo the change straight afterwards.
P=$(realpath "$1"); shift
IDS=${*:-C05 C06 C10 C11 C14 C16 C17 C18 C20}
cd /repo || exit 2
if ! git diff --quiet; then echo "/repo is dirty"; exit 2; fi
git apply "$P" 2>/dev/null || git apply -3 "$P" || { echo "PATCH-DOES-NOT-APPLY"; git checkout -q HEAD -- .; git reset -q; exit 2; }
for id in $IDS; do
    out=$(/verif/check "$id" "${TIER:-quick}" 2>&1); rc=$?
    echo "== $id rc=$rc"
    echo "$out" | grep -aE "VIOLATION|detail:|HARNESS|KNOWN" | head -6
done
git -C /repo checkout -q HEAD -- .
git -C /repo reset -q
git -C /repo status --short | head -3
# evidence files were rewritten by runs against a changed tree: restore them
git -C /verif checkout -q -- evidence 2>/dev/null
