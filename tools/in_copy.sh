#!/bin/sh
# in_copy.sh <name> <command...>: run a command of the machinery (e.g. tools/seeded_matrix.sh)
# on private copies of /repo and /verif under /tmp/vm-<name>, so that /repo and /verif stay
# free for other work. Paths inside the copy are rewritten; the copy is removed afterwards.
N=$1; shift
B=/tmp/vm-$N
rm -rf "$B"; mkdir -p "$B"
rsync -a --exclude target /repo/ "$B/repo/"
rsync -a --exclude target --exclude replays /verif/ "$B/verif/"
grep -rl -e '/repo' -e '/verif' "$B/verif/check" "$B/verif/tools" "$B/verif/sim/Cargo.toml" "$B/verif/sim/build.rs" "$B/verif/selfcheck.sh" 2>/dev/null | while read f; do
    sed -i "s|/repo|$B/repo|g; s|/verif|$B/verif|g" "$f"
done
# the harness tells its own panics from jawk's by the location prefix
sed -i "s|\"/verif/sim/\"|\"$B/verif/sim/\"|g" "$B/verif/sim/src/common.rs" "$B/verif/sim/src/props/c05.rs" 2>/dev/null
cd "$B/verif" || exit 2
"$@"
rc=$?
cd /; rm -rf "$B"
exit $rc
