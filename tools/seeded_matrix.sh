#!/bin/sh
# seeded_matrix.sh [quick|thorough]: apply every kept seeded change to /repo in turn, run the
# check(s) named in its meta.json (check_with; normally the property it breaks), undo it,
# and print one line per change. Expected: every line says CAUGHT.
# REVERSE=1 walks the list backwards (two copies can meet in the middle).
# FILTER=<regex on the directory name> restricts the run (e.g. FILTER='-r(9|10)m').
# (About 1.5 min per change: each one rebuilds jawk.)
cd /verif || exit 2
LIST=$(ls -d seeded/*/)
if [ -n "$REVERSE" ]; then LIST=$(echo "$LIST" | sort -r); fi
for d in $LIST; do
    n=$(basename "$d")
    if [ -n "$FILTER" ] && ! echo "$n" | grep -Eq -- "$FILTER"; then continue; fi
    ids=$(python3 -c "import json;print(' '.join(json.load(open('$d/meta.json'))['check_with']))")
    out=$(TIER=${1:-quick} ./tools/try_seeded.sh "$d/patch.diff" $ids 2>&1)
    if grep -q "not-caught-out-of-domain" "$d/meta.json"; then echo "$n OUT-OF-DOMAIN (kept for the record, see meta.json)"; continue; fi
    if echo "$out" | grep -aq "^VIOLATION property="; then
        echo "$n CAUGHT by $(echo "$out" | grep -ao "rule=[A-Za-z0-9.-]*" | head -1) $(echo "$out" | grep -ao "case_index=[0-9]*" | head -1)"
    else
        echo "$n MISSED $(echo "$out" | tail -2 | tr '\n' ' ')"
    fi
done
