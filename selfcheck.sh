#!/bin/sh
# Determinism proof: for every property, N seeds are executed in four separate processes
# (1 worker twice, 16 workers twice) and the per-seed digests of (case, abstract event
# trace, verdict) are compared. Any difference is a harness error (exit 2).
ROOT=$(cd "$(dirname "$0")" && pwd)
N=${1:-300}
BIN="$ROOT/target/release/jawk-sim"
TMP=$(mktemp -d /dev/shm/jawk-selfcheck.XXXXXX)
rc=0
for P in C05 C06 C10 C11 C14 C16 C17 C18 C20; do
    n=$N
    case $P in C16) n=$((N / 10 + 5)) ;; C20) n=$((N / 3 + 5)) ;; esac
    VERIF_WORKERS=1 "$BIN" digest $P 0 $n > "$TMP/$P.a" &
    VERIF_WORKERS=16 "$BIN" digest $P 0 $n > "$TMP/$P.c" &
    wait
    VERIF_WORKERS=1 "$BIN" digest $P 0 $n > "$TMP/$P.b" &
    VERIF_WORKERS=16 "$BIN" digest $P 0 $n > "$TMP/$P.d" &
    wait
    if cmp -s "$TMP/$P.a" "$TMP/$P.b" && cmp -s "$TMP/$P.a" "$TMP/$P.c" && cmp -s "$TMP/$P.a" "$TMP/$P.d"; then
        echo "selfcheck $P: $n seeds x 4 processes (1 and 16 workers): digests identical ($(md5sum < "$TMP/$P.a" | cut -c1-12))"
    else
        echo "HARNESS-ERROR selfcheck $P: digests differ between runs"
        diff "$TMP/$P.a" "$TMP/$P.b" | head -5
        diff "$TMP/$P.a" "$TMP/$P.c" | head -5
        rc=2
    fi
done
rm -rf "$TMP"
exit $rc
